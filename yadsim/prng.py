"""One integer decides everything: splitmix64-derived, named, independent streams."""

import hashlib
import random

MASK = (1 << 64) - 1


def splitmix64(x):
    x = (x + 0x9E3779B97F4A7C15) & MASK
    z = x
    z = ((z ^ (z >> 30)) * 0xBF58476D1CE4E5B9) & MASK
    z = ((z ^ (z >> 27)) * 0x94D049BB133111EB) & MASK
    return z ^ (z >> 31)


def derive(seed, *tags):
    """Derive a 64-bit sub-seed from ``seed`` and a sequence of tags (ints/strs).

    Uses sha256 of the textual tags, so it is independent of PYTHONHASHSEED.
    """
    h = hashlib.sha256()
    h.update(str(int(seed)).encode())
    for t in tags:
        h.update(b"\x00")
        h.update(str(t).encode())
    return splitmix64(int.from_bytes(h.digest()[:8], "big"))


class Streams:
    """Named sub-streams of one run seed; adding draws to one never shifts another."""

    def __init__(self, run_seed):
        self.run_seed = int(run_seed)
        self._streams = {}

    def __getitem__(self, name):
        if name not in self._streams:
            self._streams[name] = random.Random(derive(self.run_seed, "stream", name))
        return self._streams[name]


def run_seed(verif_seed, prop, run_index):
    return derive(verif_seed, "run", prop, run_index)
