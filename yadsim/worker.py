"""Worker process: executes simulated runs on request (JSON lines over stdin/stdout).

One worker = one fresh interpreter with a pinned environment.  The parent (batch.py) owns
scheduling of *which run goes to which worker*; since a run is a pure function of its seed
that assignment cannot influence results — which the determinism self-test verifies by
re-executing runs in another worker, in another order, under another PYTHONHASHSEED.
"""

import faulthandler
import json
import os
import sys
import time
import traceback


def main():
    # protocol channel = the original stdout; everything else goes to stderr
    proto = os.fdopen(os.dup(1), "w", buffering=1)
    os.dup2(2, 1)
    sys.stdout = sys.stderr
    faulthandler.enable(file=sys.stderr)

    from . import env

    env.import_yadism()
    from . import registry, shrink
    from .prng import run_seed

    proto.write(json.dumps({"ready": True, "pid": os.getpid(), "source": env.source_hash(),
                            "jit": env.jit_enabled(), "hashseed": os.environ.get("PYTHONHASHSEED")}) + "\n")
    import collections

    recent = collections.deque(maxlen=3)  # the traces this process executed before the current one
    for line in sys.stdin:
        line = line.strip()
        if not line:
            continue
        msg = json.loads(line)
        cmd = msg.get("cmd")
        if cmd == "quit":
            break
        t0 = time.perf_counter()
        out = {"cmd": cmd, "tag": msg.get("tag")}
        try:
            sim = registry.get(msg["prop"])
            wd = float(msg.get("watchdog", 0) or 0)
            if wd:
                faulthandler.dump_traceback_later(wd, exit=True, file=sys.stderr)
            if cmd == "run":
                rs = run_seed(msg["seed"], msg["prop"], msg["index"])
                params = dict(msg.get("params") or {})
                trace = sim.generate(rs, jit=env.jit_enabled(), **params)
                trace["seed"] = msg["seed"]
                trace["run_index"] = msg["index"]
                trace["tier"] = msg.get("tier")
                rep = sim.execute(trace)
                out["report"] = rep
                out["trace_digest"] = registry.trace_digest(trace)
                if msg.get("want_trace") or rep["violations"]:
                    out["trace"] = trace
                if rep["violations"]:
                    # in case the violation needs state left behind by earlier runs of this process
                    out["prev_traces"] = list(recent)
                recent.append(trace)
            elif cmd == "enum":
                rs = run_seed(msg["seed"], msg["prop"] + "-enum", msg["index"])
                out["report"] = sim.enum_run(rs, jit=env.jit_enabled(), max_cases=int(msg.get("max_cases", 600)))
            elif cmd == "exec":
                rep = sim.execute(msg["trace"])
                out["report"] = rep
            elif cmd == "shrink":
                trace = msg["trace"]
                rep = sim.execute(trace, collect_states=False)
                if not rep["violations"]:
                    out["report"] = rep
                    out["min_trace"] = None
                else:
                    target = sim.violation_class(rep["violations"][0])
                    m, mrep, n = shrink.shrink(
                        trace, lambda t: sim.execute(t, collect_states=False), sim.candidates,
                        sim.violation_class, target,
                        max_exec=int(msg.get("max_exec", 150)), max_seconds=float(msg.get("max_seconds", 180)))
                    if mrep is None:
                        mrep = rep
                    out["report"] = mrep
                    out["min_trace"] = m
                    out["shrink_execs"] = n
            else:
                out["error"] = f"unknown cmd {cmd}"
            if wd:
                faulthandler.cancel_dump_traceback_later()
        except BaseException as e:  # noqa: BLE001 - harness trouble is reported, never a VIOLATION
            faulthandler.cancel_dump_traceback_later()
            out["error"] = f"{type(e).__name__}: {e}"
            out["traceback"] = traceback.format_exc()
        out["wall"] = time.perf_counter() - t0
        proto.write(json.dumps(out) + "\n")
        proto.flush()


if __name__ == "__main__":
    main()
