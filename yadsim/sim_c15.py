"""C15 — serialised output round-trips losslessly (DESIGN §4).

Histories of dump/load cycles of real ``Output`` objects on a real scratch directory behind
the fault-injecting raw file layer; reference model ``files: path → ABSENT | ACKED(snapshot)
| TORN`` and ``live: handle → snapshot``.
"""

import copy
import hashlib
import io
import json
import os
import shutil
import tempfile

from . import canon, cards
from .fsim import FaultFS
from .prng import Streams
from .seams import Sched, SimCrash

PROPERTY = "C15"
FAULT_CONFIGS = ["none", "transparent", "failing", "all"]
TRANSPARENT = ["short_write", "short_read"]
FAILING = ["open_fail", "write_err", "write_torn", "read_err", "mkdir_fail", "crash"]
SITES_FOR = {
    "short_write": ["io_write"], "short_read": ["io_read"], "open_fail": ["io_open"],
    "write_err": ["io_write"], "write_torn": ["io_write"], "read_err": ["io_read"],
    "mkdir_fail": ["mkdir"], "crash": ["io_write", "io_write", "io_open", "io_read"],
}
DUMPS = ("dump_tar", "dump_yaml_file", "dump_yaml_stream")
LOADS = ("load_tar", "load_yaml_file", "load_yaml_stream")


# ------------------------------------------------------------------------------------
# toy PDF for the "identical predictions" corollary
# ------------------------------------------------------------------------------------

class ToyPDF:
    def hasFlavor(self, pid):  # noqa: N802
        return pid in (-3, -2, -1, 1, 2, 3, 4, 21)

    def xfxQ2(self, pid, x, q2):  # noqa: N802
        import math

        x = float(x)
        return (0.3 + 0.07 * pid) * x ** 0.4 * (1.0 - x) ** 3 * (1.0 + 0.05 * math.log(float(q2) + 1.0))


def prediction_digest(out):
    """Canonical digest of the toy-PDF prediction of an output (None if it cannot be formed)."""
    import numpy as np

    res = out.apply_pdf_alphas_alphaqed_xir_xif(ToyPDF(), lambda mu: 0.2 + 0.0 * mu, lambda mu: 0.0075, 1.5, 0.5)
    h = hashlib.sha256()
    for name in sorted(res):
        h.update(name.encode())
        for r in res[name]:
            for k in sorted(r):
                v = r[k]
                if isinstance(v, (float, int, np.floating, np.integer)) or v is None:
                    h.update((k + canon._num(v)).encode())
                else:
                    h.update((k + canon._num(float(v))).encode())
    return h.hexdigest()[:24]


# ------------------------------------------------------------------------------------
# snapshot: canonical form of an Output (by value, exact bits for operator arrays)
# ------------------------------------------------------------------------------------

def _is_obs(key):
    from yadism import observable_name as on

    return on.ObservableName.is_valid(key)


def snapshot(out, with_prediction=True):
    snap = {"keys": sorted(out.keys()), "obs": {}, "meta": {}}
    for k in out.keys():
        v = out[k]
        if _is_obs(k):
            if v is None:
                snap["obs"][k] = None
            else:
                snap["obs"][k] = [canon.result_canon(r) for r in v]
        else:
            snap["meta"][k] = _meta_canon(v)
    snap["theory"] = _meta_canon(out.theory)
    snap["observables"] = _meta_canon(out.observables)
    if with_prediction:
        try:
            snap["prediction"] = prediction_digest(out)
        except Exception as e:  # noqa: BLE001
            snap["prediction"] = f"unavailable:{type(e).__name__}"
    return snap


def _meta_canon(v):
    v = canon.plain(v)
    return _mc(v)


def _mc(v):
    if isinstance(v, dict):
        return ("dict", tuple(sorted((str(k), _mc(x)) for k, x in v.items())))
    if isinstance(v, list):
        return ("list", tuple(_mc(x) for x in v))
    if isinstance(v, str):
        return "s" + v
    return canon._num(v)


def snap_digest(snap):
    return hashlib.sha256(repr(snap).encode()).hexdigest()[:24]


def snap_diff(a, b):
    if a == b:
        return None
    if a["keys"] != b["keys"]:
        return f"key set {a['keys']} != {b['keys']}"
    for k in a["obs"]:
        x, y = a["obs"][k], b["obs"].get(k, "<missing>")
        if x != y:
            if x is None or y is None or isinstance(y, str):
                return f"observable {k}: {('None' if x is None else 'list')} != {('None' if y is None else y if isinstance(y, str) else 'list')}"
            if len(x) != len(y):
                return f"observable {k}: {len(x)} results != {len(y)}"
            for j, (p, q) in enumerate(zip(x, y)):
                if p != q:
                    return f"observable {k}[{j}]: {canon.describe_diff(q, p)}"
    for k in a["meta"]:
        if a["meta"][k] != b["meta"].get(k):
            return f"metadata {k}: {a['meta'][k]} != {b['meta'].get(k)}"
    if a["theory"] != b["theory"]:
        return "theory card differs"
    if a["observables"] != b["observables"]:
        return "observables card differs"
    if a.get("prediction") != b.get("prediction"):
        return f"toy-PDF prediction differs: {a.get('prediction')} != {b.get('prediction')}"
    return "differ"


# ------------------------------------------------------------------------------------
# generation
# ------------------------------------------------------------------------------------

def gen_output_card(rng):
    """A cheap card whose run yields an output mixing SFs and XSs, several order keys."""
    th, ob = cards.gen_settings(rng, max_pto=1, cheap=True)
    if th["TMC"] in (1, 3):
        th["TMC"] = rng.choice([0, 2])
    if th["FNS"] not in ("ZM-VFNS", "FFNS"):
        th["FNS"] = rng.choice(["ZM-VFNS", "FFNS"])
    if th["PTO"] == 1 and rng.random() < 0.35:
        th["PTO"] = 0
        if th.get("PTODIS") is not None:
            th["PTODIS"] = 0
    nnlo = rng.random() < 0.1
    if nnlo:
        # NNLO is where the insertion order of the order keys stops being the sorted order
        # ((2,0,1,0) precedes (2,0,0,1)); kept affordable: 5-node grid, massless, few points
        th["PTO"] = 2
        th.pop("PTODIS", None)
        th["FNS"] = "ZM-VFNS"
        th["TMC"] = 0
        ob["interpolation_xgrid"] = list(cards.GRIDS_LOG[0])
        ob["interpolation_is_log"] = True
        ob["interpolation_polynomial_degree"] = rng.randint(1, 3)
        sv = rng.choice(["TT", "TF", "FT", "FF", "TT"])
        th["RenScaleVar"] = sv[0] == "T"
        th["FactScaleVar"] = sv[1] == "T"
    big = (not nnlo) and rng.random() < 0.07
    if big:
        # many observables with many points (different lengths, duplicates) at leading order:
        # archives spanning several tar records, long kinematics lists
        th["PTO"] = 0
        th.pop("PTODIS", None)
    pools = cards.gen_pools(rng, th, ob, nx=6 if big else 4, nq=5 if big else 4)
    n = cards.wchoice(rng, [(1, 3), (2, 4), (3, 2)])
    if nnlo:
        n = 1
    if big:
        n = rng.randint(4, 7)
    names = cards.gen_obs_names(rng, th, ob, n, wild=0.0)
    if nnlo:
        names = [rng.choice(["F2_light", "FL_light", "F2_total", "F3_light"])]
    # make sure cross sections and structure functions are mixed often
    if rng.random() < 0.5 and not any(cards.is_xs(x) for x in names):
        names.append(rng.choice(cards.XS_CC if ob["prDIS"] == "CC" else cards.XS_NC))
    obs = []
    for name in names:
        npts = cards.wchoice(rng, [(0, 0.8), (1, 4), (2, 3), (3, 1.5)])
        if nnlo:
            npts = 1 if not cards.is_xs(name) else 0
        if big:
            npts = rng.randint(3, 18)
        pts = cards.gen_points(rng, pools, name, npts, th, plant=big) if npts else []
        obs.append([name, pts])
    if (not nnlo) and (not big) and rng.random() < 0.006:
        # huge: one observable with more than 256 points (leading order, three-node grid)
        th["PTO"] = 0
        th.pop("PTODIS", None)
        th["TMC"] = 0
        ob["interpolation_xgrid"] = list(cards.HUGE_GRID)
        ob["interpolation_is_log"] = rng.choice([True, False])
        ob["interpolation_polynomial_degree"] = 1
        hname = rng.choice(["F2_light", "F2_total", "F2", "FL_light", "XSHERANC" if ob["prDIS"] != "CC" else "XSHERACC"])
        obs = [[hname, cards.huge_points(rng, rng.randint(257, 300), cards.is_xs(hname))]]
        if rng.random() < 0.5:
            obs.append(["F3_light", cards.huge_points(rng, 2)])
    giant = (not nnlo) and (not big) and rng.random() < 0.002
    if giant:
        # giant: a production-sized grid (50 nodes) and about two thousand points in one observable - the operator
        # of one observable is then > 10 MB, the size at which writers start to chunk / split / stream
        # (adversarial seeded change c15-adversarial-npz-parts-sorted-as-text: more than ten 1 MiB parts).
        # Runs holding such an output use the tar format only (PyYAML needs minutes for 1.5 million floats).
        th["PTO"] = 0
        th.pop("PTODIS", None)
        th["TMC"] = 0
        if th["FNS"] != "ZM-VFNS":
            th["FNS"] = "ZM-VFNS"
        ob["interpolation_xgrid"] = cards.wide_grid(30, 20)
        ob["interpolation_is_log"] = True
        ob["interpolation_polynomial_degree"] = rng.choice([1, 4])
        gname = rng.choice(["F2_light", "F2_total", "FL_light", "F3_total"])
        obs = [[gname, cards.huge_points(rng, rng.randint(1900, 2300))]]
    card = {"theory": th, "obs": ob, "observables": obs}
    if giant:
        card["giant"] = True
    sfs = [o for o in obs if not cards.is_xs(o[0])]
    if len(sfs) >= 2 and rng.random() < 0.35:
        # the way yadmark builds cards: the *same* kinematics list object under every structure function
        # (PyYAML then writes anchors and aliases into the echoed card)
        for o in sfs[1:]:
            o[1] = copy.deepcopy(sfs[0][1])
        card["share_kinematics"] = True
    return card


def gen_io_faults(rng, opkind, enabled, rate, max_faults=1):
    out = []
    for _ in range(max_faults):
        out.extend(_gen_io_fault(rng, opkind, enabled, rate if not out else 0.35))
    # at most one decision per (site, call)
    seen, uniq = set(), []
    for f in out:
        if (f["site"], f["call"]) not in seen:
            seen.add((f["site"], f["call"]))
            uniq.append(f)
    return uniq


def _gen_io_fault(rng, opkind, enabled, rate):
    out = []
    if not enabled or rng.random() >= rate:
        return out
    do = rng.choice(enabled)
    if opkind in DUMPS and do in ("short_read", "read_err") and opkind != "dump_tar":
        do = rng.choice([k for k in enabled if k not in ("short_read", "read_err")] or [do])
    if opkind in LOADS and do in ("short_write", "write_err", "write_torn") and opkind != "load_tar":
        do = rng.choice([k for k in enabled if k not in ("short_write", "write_err", "write_torn")] or [do])
    # typical consultation counts per op kind (measured on fault-free runs: min/median/max), so
    # that a decision usually meets a call; streams do no raw I/O at all
    typical = {
        "dump_tar": {"mkdir": 2, "io_open": 13, "io_write": 20, "io_read": 6},
        "load_tar": {"mkdir": 3, "io_open": 15, "io_read": 20, "io_write": 6},
        "dump_yaml_file": {"io_open": 1, "io_write": 3},
        "load_yaml_file": {"io_open": 1, "io_read": 4},
    }.get(opkind, {})
    sites = [x for x in SITES_FOR[do] if typical.get(x)]
    if not sites:
        return out
    site = rng.choice(sites)
    hi = typical[site]
    f = {"site": site, "call": rng.randrange(0, hi), "do": do}
    if do in ("write_torn", "short_write", "short_read", "crash"):
        f["frac"] = rng.choice([0.0, 0.1, 0.5, 0.9, 1.0]) if do == "crash" else rng.choice([0.1, 0.5, 0.9])
    if do in ("write_err",):
        f["arg"] = rng.choice(["EIO", "ENOSPC"])
    if do == "open_fail":
        f["arg"] = rng.choice(["EMFILE", "EACCES", "ENOSPC"])
    out.append(f)
    return out


def generate(run_seed, fault_config="all", jit=False, max_ops=12, max_faults=1, meta=None):
    st = Streams(run_seed)
    cfg, ops_rng, frng = st["config"], st["ops"], st["faults"]
    nout = cards.wchoice(cfg, [(1, 4), (2, 3), (3, 1)])
    outputs = {f"C{k}": gen_output_card(cfg) for k in range(nout)}
    if fault_config == "none":
        enabled = []
    elif fault_config == "transparent":
        enabled = list(TRANSPARENT)
    elif fault_config == "failing":
        enabled = [k for k in FAILING if frng.random() < 0.7] or [frng.choice(FAILING)]
    else:
        enabled = [k for k in TRANSPARENT + FAILING if frng.random() < 0.6] or [frng.choice(FAILING)]
    rate = frng.choice([0.25, 0.45, 0.7])
    tar_paths = ["a.tar", "b.tar", "dir.v1/c.tar"]
    yaml_paths = ["a.yaml", "b.yaml", "c.out"]
    if cfg.random() < 0.35:
        # file names are the caller's: several dots, a stem that is also the name of an archive member or of
        # an observable, blanks, non-ASCII and glob characters, a directory with a blank
        tar_paths = cfg.sample(["my.results.v2.tar", "F2_total.tar", "metadata.tar", "runcards.tar", "run 1/\u00fc[1].tar",
                                "a.tar", "dir.v1/c.tar", "F2.yaml.tar"], 3)
        yaml_paths = cfg.sample(["a.yaml", "out.tar.yaml", "run 1/caf\u00e9 *.yml", "noext", "b.yaml"], 3)
    pstyles = cfg.choice([["str"], ["str"], ["str", "pathlib"], ["pathlib"], ["str", "pathlib", "relative"]])
    nclients = cfg.randint(1, 3)
    tar_only = any(c.get("giant") for c in outputs.values())
    ops = []
    live = {}  # handle -> True ; abstract
    files = {}  # path -> fmt (assumed acked)
    streams = []
    made = 0
    nops = ops_rng.randint(4, max_ops)
    hcount = 0
    while len(ops) < nops:
        choices = []
        if made < nout:
            choices.append(("make_output", 6 if not live else 1.5))
        if live:
            choices += [("dump_tar", 4), ("dump_yaml_file", 3), ("dump_yaml_stream", 1.2), ("scribble", 0.7),
                        ("set_none", 0.5)]
        if files:
            choices += [("load", 7), ("rename", 0.8)]
        if streams:
            choices.append(("load_yaml_stream", 1.5))
        if ops:
            choices.append(("crash_restart", 0.25))
        if tar_only:
            choices = [c for c in choices if "yaml" not in c[0]]
        kind = cards.wchoice(ops_rng, choices)
        op = {"id": len(ops), "client": ops_rng.randrange(nclients), "op": kind}
        if kind == "make_output":
            op["card"] = f"C{made}"
            op["handle"] = f"H{hcount}"
            made += 1
            live[op["handle"]] = True
            hcount += 1
        elif kind in ("dump_tar", "dump_yaml_file"):
            op["handle"] = ops_rng.choice(sorted(live))
            op["path"] = ops_rng.choice(tar_paths if kind == "dump_tar" else yaml_paths)
            op["pstyle"] = ops_rng.choice(pstyles)
            files[op["path"]] = "tar" if kind == "dump_tar" else "yaml"
        elif kind == "dump_yaml_stream":
            op["handle"] = ops_rng.choice(sorted(live))
            op["stream"] = f"S{len(streams)}"
            streams.append(op["stream"])
        elif kind == "load":
            p = ops_rng.choice(sorted(files))
            op["op"] = "load_tar" if files[p] == "tar" else "load_yaml_file"
            op["path"] = p
            op["pstyle"] = ops_rng.choice(pstyles)
            op["handle"] = f"H{hcount}"
            live[op["handle"]] = True
            hcount += 1
        elif kind == "load_yaml_stream":
            op["stream"] = ops_rng.choice(streams)
            op["handle"] = f"H{hcount}"
            live[op["handle"]] = True
            hcount += 1
        elif kind == "rename":
            p = ops_rng.choice(sorted(files))
            pool = tar_paths + ["renamed.tar"] if files[p] == "tar" else yaml_paths + ["renamed.yaml"]
            q = ops_rng.choice([x for x in pool if x != p])
            op["path"] = p
            op["to"] = q
            files[q] = files.pop(p)
        elif kind == "scribble":
            op["handle"] = ops_rng.choice(sorted(live))
            op["what"] = ops_rng.choice(["values", "meta", "cards", "kin", "specials", "specials"])
        elif kind == "set_none":
            op["handle"] = ops_rng.choice(sorted(live))
            op["which"] = ops_rng.randrange(4)
        elif kind == "crash_restart":
            live = {}
            streams = []
        op["faults"] = gen_io_faults(frng, op["op"], enabled, rate, max_faults) if op["op"] in DUMPS + LOADS else []
        # simulated time that passes before the op (file modification times are simulated, fsim.FaultFS.now)
        dt = cards.wchoice(ops_rng, [(0, 5), (0.3, 2), (1.0, 1), (2.5, 1), (86400.0, 0.5)])
        if dt:
            op["dt"] = dt
        ops.append(op)
    # bounded liveness: once faults stop, dump-then-load of a live object on every used path works
    if live and ops_rng.random() < 0.7:
        h = ops_rng.choice(sorted(live))
        for p in sorted(files)[:2]:
            fmt = files[p]
            ops.append({"id": len(ops), "client": 0, "op": "dump_tar" if fmt == "tar" else "dump_yaml_file",
                        "handle": h, "path": p, "faults": [], "final": True})
            ops.append({"id": len(ops), "client": 0, "op": "load_tar" if fmt == "tar" else "load_yaml_file",
                        "path": p, "handle": f"H{hcount}", "faults": [], "final": True})
            hcount += 1
    trace = {"format": 1, "property": PROPERTY, "run_seed": int(run_seed), "fault_config": fault_config,
             "jit": bool(jit), "outputs": outputs, "ops": ops}
    if meta:
        trace.update(meta)
    return trace


# ------------------------------------------------------------------------------------
# execution
# ------------------------------------------------------------------------------------

ABSENT, ACKED, TORN = "absent", "acked", "torn"
_OUTPUT_MEMO = {}


class Execution:
    def __init__(self, trace, collect_states=True):
        self.trace = trace
        self.sched = Sched()
        self.events = []
        self.violations = []
        self.collect_states = collect_states
        self.states = set()
        self.transitions = set()
        import collections

        self.probes = collections.Counter()
        self.live = {}  # handle -> {"out", "snap", "origin"}
        self.streams = {}  # name -> {"text", "snap"}
        self.files = {}  # relpath -> {"state", "snap", "fmt"}
        self.returned = 0
        self.raised_under_fault = 0
        self.skipped = 0
        self.crashes = 0
        self.per_op_sites = []

    def log(self, *a):
        self.events.append(a)

    def violation(self, oracle, at_op, what, detail, tags=None):
        detail = str(detail).replace(getattr(self, "root", "\0"), "<scratch>")
        self.violations.append({"oracle": oracle, "at_op": at_op, "op": self.trace["ops"][at_op]["op"],
                                "what": what, "detail": detail, "tags": sorted(set(tags or []))})

    def path(self, rel, style="str"):
        """The path as the caller spells it: an absolute string, a pathlib.Path, or a string relative to the
        current directory (the run's data directory is the current directory for the whole run)."""
        if style == "pathlib":
            import pathlib

            return pathlib.Path(self.data) / rel
        if style == "relative":
            return rel
        return os.path.join(self.data, rel)

    def run(self):
        import yadism  # noqa: F401

        self.root = tempfile.mkdtemp(prefix="yadsim-c15-")
        self.data = os.path.join(self.root, "data")
        os.makedirs(os.path.join(self.data, "dir.v1"))
        os.makedirs(os.path.join(self.data, "run 1"))
        self.fs = FaultFS(self.sched, self.root).install()
        cwd0 = os.getcwd()
        os.chdir(self.data)
        try:
            prev = "init"
            for i, op in enumerate(self.trace["ops"]):
                self.fs.now += float(op.get("dt", 0))
                self.sched.begin_op(i, op.get("faults"))
                self.fs.begin_op()
                n0 = len(self.sched.fired)
                crashed = False
                try:
                    self.do_op(i, op)
                except SimCrash:
                    crashed = True
                finally:
                    self.per_op_sites.append(dict(self.sched.counts))
                    self.sched.end_op()
                if self.fs.dead and not crashed:
                    # the code under test swallowed the unwinding (e.g. `return` in a `finally`);
                    # a dead process cannot continue whatever the code does: restart anyway
                    crashed = True
                    self.probes["crash_unwinding_swallowed"] += 1
                    self.violations = [v for v in self.violations if v["at_op"] != i]
                if crashed:
                    self.after_crash(i, op)
                if self.violations:
                    break
                if not crashed and not self.check_live(i, op):
                    break
                if self.collect_states:
                    sig = self.signature()
                    self.states.add(sig)
                    self.transitions.add((prev, op["op"], tuple(sorted(f[3] for f in self.sched.fired[n0:])), sig))
                    prev = sig
            if not self.violations:
                self.final_durability()
        finally:
            os.chdir(cwd0)
            self.fs.remove()
            shutil.rmtree(self.root, ignore_errors=True)
        return self.report()

    def signature(self):
        sig = (tuple(sorted((p, f["state"], f["fmt"]) for p, f in self.files.items())),
               tuple(sorted((h, v["origin"]) for h, v in self.live.items())), len(self.streams))
        return hashlib.sha256(repr(sig).encode()).hexdigest()[:16]

    # ---- crash + restart: only files survive
    def after_crash(self, i, op):
        self.crashes += 1
        self.probes["crash_restart"] += 1
        self.fs.dead = False
        kind = op["op"]
        if kind in ("dump_tar", "dump_yaml_file"):
            p = os.path.realpath(self.path(op["path"]))
            if p in self.fs.opened_for_write:
                self.files[op["path"]] = {"state": TORN, "snap": None, "fmt": "tar" if kind == "dump_tar" else "yaml"}
        self.live = {}
        self.streams = {}
        self.log(i, kind, "crashed")
        # whatever the dead process left in the temp area (its TemporaryDirectory with the staged npz / yaml
        # files, a half-extracted archive) stays there, as it would in /tmp: files survive a crash
        self.probes["temp_leftovers_after_crash"] += len(os.listdir(os.path.join(self.root, "tmp")))

    def check_live(self, i, op):
        """Cross-invariant: no op changes a live object it was not asked to scribble on."""
        for h, v in self.live.items():
            if op["op"] in ("scribble", "set_none") and op.get("handle") == h:
                continue
            s = snapshot(v["out"], with_prediction=False)
            ref = dict(v["snap"])
            ref.pop("prediction", None)
            if s != ref:
                tags = self.tags_for(v)
                self.violation("live-object-changed", i, [h], snap_diff(ref, s), tags)
                return False
        return True

    def tags_for(self, v, extra=()):
        tags = list(extra)
        if v is None:
            return tags
        if v.get("origin", "").startswith("loaded"):
            tags.append("redump")
        snap = v.get("snap")
        if snap and any(isinstance(x, list) and len(x) == 0 for x in snap["obs"].values()):
            tags.append("empty-observable")
        if snap and any(x is None for x in snap["obs"].values()):
            tags.append("none-observable")
        return tags

    def final_durability(self):
        """After the history: every ACKED path still loads equal (no fault)."""
        from yadism.output import Output

        self.sched.active = False
        for rel in sorted(self.files):
            f = self.files[rel]
            if f["state"] != ACKED:
                continue
            try:
                out = Output.load_tar(self.path(rel)) if f["fmt"] == "tar" else Output.load_yaml_from_file(self.path(rel))
            except Exception as e:  # noqa: BLE001
                self.violation("acked-file-unloadable", len(self.trace["ops"]) - 1, [rel],
                               f"{type(e).__name__}: {e}", self.tags_for(f))
                return
            s = snapshot(out)
            if s != f["snap"]:
                self.violation("acked-file-differs", len(self.trace["ops"]) - 1, [rel], snap_diff(f["snap"], s), self.tags_for(f))
                return
            self.probes["final_reload_ok"] += 1

    # ---- ops
    def do_op(self, i, op):
        import yadism
        from yadism.output import Output

        kind = op["op"]
        n0 = len(self.sched.fired)

        def fired():
            return self.sched.fired[n0:]

        if kind == "make_output":
            c = self.trace["outputs"][op["card"]]
            th = copy.deepcopy(c["theory"])
            ob = copy.deepcopy(c["obs"])
            ob["observables"] = {n: [cards.point_dict(p) for p in pts] for n, pts in c["observables"]}
            if c.get("share_kinematics"):
                shared = None
                for n in list(ob["observables"]):
                    if not cards.is_xs(n):
                        if shared is None:
                            shared = ob["observables"][n]
                        else:
                            ob["observables"][n] = shared
            # producing the output is not under test here (fault-free, scheduler quiet); the
            # enumeration tier re-executes one history hundreds of times, so the produced object
            # is memoised per card and handed out as a deep copy
            ckey = json.dumps(c, sort_keys=True)
            if ckey in _OUTPUT_MEMO:
                out = copy.deepcopy(_OUTPUT_MEMO[ckey])
                if out is None:
                    self.skipped += 1
                    self.log(i, kind, "rejected")
                    return
            else:
                self.sched.quiet += 1
                try:
                    out = yadism.Runner(th, ob).get_result()
                except Exception as e:  # noqa: BLE001 - a card the pinned environment rejects yields no output
                    out = None
                finally:
                    self.sched.quiet -= 1
                if len(_OUTPUT_MEMO) >= 6:
                    _OUTPUT_MEMO.pop(next(iter(_OUTPUT_MEMO)))
                _OUTPUT_MEMO[ckey] = copy.deepcopy(out)
                if out is None:
                    self.skipped += 1
                    self.log(i, kind, "rejected")
                    return
            snap = snapshot(out)
            self.live[op["handle"]] = {"out": out, "snap": snap, "origin": "runner"}
            if any(isinstance(x, list) and len(x) == 0 for x in snap["obs"].values()):
                self.probes["empty_observable_output"] += 1
            if len({type(r).__name__ for k, v in out.items() if _is_obs(k) and v for r in v}) > 1:
                self.probes["mixed_sf_xs_output"] += 1
            self.log(i, kind, op["handle"], snap_digest(snap))
            return
        if kind == "crash_restart":
            self.live = {}
            self.streams = {}
            self.probes["idle_restart"] += 1
            self.log(i, kind)
            return
        if kind == "rename":
            f = self.files.get(op["path"])
            if f is None:
                self.skipped += 1
                return
            try:
                os.replace(self.path(op["path"]), self.path(op["to"]))
            except FileNotFoundError:
                if f["state"] == ACKED:
                    self.violation("acked-file-missing", i, [op["path"]],
                                   "a dump to this path returned normally but no file exists", self.tags_for(f))
                    return
                self.files.pop(op["path"], None)
                self.skipped += 1
                return
            self.files[op["to"]] = self.files.pop(op["path"])
            self.probes["rename"] += 1
            self.log(i, kind, op["path"], op["to"])
            return
        if kind in ("scribble", "set_none"):
            v = self.live.get(op["handle"])
            if v is None:
                self.skipped += 1
                return
            if kind == "scribble":
                _scribble(v["out"], op["what"])
                self.probes["scribble"] += 1
            else:
                names = [k for k in v["out"].keys() if _is_obs(k)]
                if not names:
                    self.skipped += 1
                    return
                v["out"][names[op["which"] % len(names)]] = None
                self.probes["set_none"] += 1
            v["snap"] = snapshot(v["out"])
            v["origin"] = v["origin"] + "+edited"
            self.log(i, kind, op["handle"], snap_digest(v["snap"]))
            return
        if kind in DUMPS:
            v = self.live.get(op["handle"])
            if v is None:
                self.skipped += 1
                self.log(i, kind, "skipped")
                return
            tags = self.tags_for(v)
            if "redump" in tags:
                self.probes["redump_of_loaded_object"] += 1
            try:
                if kind == "dump_tar":
                    v["out"].dump_tar(self.path(op["path"], op.get("pstyle", "str")))
                elif kind == "dump_yaml_file":
                    v["out"].dump_yaml_to_file(self.path(op["path"], op.get("pstyle", "str")))
                else:
                    buf = io.StringIO()
                    r = v["out"].dump_yaml(buf)
                    text = buf.getvalue() if r is None else r
            except SimCrash:
                raise
            except Exception as e:  # noqa: BLE001
                if not fired() or all(f[3] in TRANSPARENT for f in fired()):
                    self.violation("op-raised", i, [op["handle"], op.get("path")],
                                   f"{kind} raised {type(e).__name__}: {str(e)[:200]} with "
                                   + ("no fault injected" if not fired() else "only transparent faults (short read/write) injected"),
                                   tags)
                    return
                self.raised_under_fault += 1
                self.probes["dump_failed_under_fault"] += 1
                if kind != "dump_yaml_stream":
                    p = os.path.realpath(self.path(op["path"]))
                    if p in self.fs.opened_for_write:
                        self.files[op["path"]] = {"state": TORN, "snap": None, "fmt": "tar" if kind == "dump_tar" else "yaml"}
                        self.probes["file_left_torn"] += 1
                    elif op["path"] in self.files:
                        self.probes["old_file_survived_failed_dump"] += 1
                self.log(i, kind, "raised", type(e).__name__)
                return
            if fired() and any(f[3] not in TRANSPARENT for f in fired()):
                self.probes["fault_absorbed"] += 1
            self.returned += 1
            if kind == "dump_yaml_stream":
                self.streams[op["stream"]] = {"text": text, "snap": v["snap"], "origin": v["origin"]}
            else:
                self.files[op["path"]] = {"state": ACKED, "snap": v["snap"], "fmt": "tar" if kind == "dump_tar" else "yaml",
                                          "origin": v["origin"]}
            self.log(i, kind, op["handle"], op.get("path") or op.get("stream"), snap_digest(v["snap"]))
            return
        if kind in LOADS:
            if kind == "load_yaml_stream":
                src = self.streams.get(op["stream"])
                state = ACKED if src else ABSENT
            else:
                src = self.files.get(op["path"])
                state = src["state"] if src else ABSENT
            if state == ABSENT:
                self.skipped += 1
                self.log(i, kind, "skipped")
                return
            tags = self.tags_for(src)
            try:
                if kind == "load_tar":
                    out = Output.load_tar(self.path(op["path"], op.get("pstyle", "str")))
                elif kind == "load_yaml_file":
                    out = Output.load_yaml_from_file(self.path(op["path"], op.get("pstyle", "str")))
                else:
                    out = Output.load_yaml(io.StringIO(src["text"]))
            except SimCrash:
                raise
            except Exception as e:  # noqa: BLE001
                if state == TORN:
                    self.probes["torn_file_load_failed_loudly"] += 1
                    self.log(i, kind, "torn-raised", type(e).__name__)
                    return
                if not fired() or all(f[3] in TRANSPARENT for f in fired()):
                    self.violation("op-raised", i, [op.get("path") or op.get("stream")],
                                   f"{kind} of an acknowledged dump raised {type(e).__name__}: {str(e)[:200]} with "
                                   + ("no fault injected" if not fired() else "only transparent faults (short read/write) injected"),
                                   tags)
                    return
                self.raised_under_fault += 1
                self.probes["load_failed_under_fault"] += 1
                self.log(i, kind, "raised", type(e).__name__)
                return
            if state == TORN:
                # not judged: the property speaks about dumps that happened (DESIGN §4.3)
                # The object is whatever a truncated file happens to parse to (a YAML file cut at a line
                # boundary is a valid shorter document; arrays may be ragged).  It is not "an output
                # produced by the runner", so it is not kept as a live object: judging later dumps of it
                # would be a false alarm (C15 thorough run index 41930 of VERIF_SEED=0 did exactly that).
                self.probes["torn_file_loaded"] += 1
                self.log(i, kind, "torn-loaded")
                return
            snap = snapshot(out)
            if snap != src["snap"]:
                self.violation("roundtrip-differs", i, [op.get("path") or op.get("stream")],
                               snap_diff(src["snap"], snap), tags + (["under-fault"] if fired() else []))
                return
            self.returned += 1
            if fired():
                self.probes["load_ok_under_fault"] += 1
            self.live[op["handle"]] = {"out": out, "snap": snap, "origin": "loaded-" + ("tar" if kind == "load_tar" else "yaml")}
            self.log(i, kind, op["handle"], snap_digest(snap))
            return
        raise ValueError(f"unknown op {kind}")

    def report(self):
        h = hashlib.sha256()
        for ev in self.events:
            h.update(repr(ev).encode() + b"\n")
        h.update(repr(self.sched.fired).encode())
        h.update(repr([(v["oracle"], v["at_op"]) for v in self.violations]).encode())
        fired = {}
        for f in self.sched.fired:
            fired[f[3]] = fired.get(f[3], 0) + 1
        nontrivial = bool(self.sched.fired) or any(
            self.probes.get(k, 0) for k in ("redump_of_loaded_object", "rename", "scribble", "set_none",
                                             "empty_observable_output", "crash_restart"))
        return {
            "digest": h.hexdigest(), "violations": self.violations, "fired": fired,
            "unfired": len(self.sched.unfired), "steps": self.sched.steps,
            "site_totals": dict(self.sched.site_totals), "probes": dict(self.probes),
            "states": sorted(self.states), "transitions": len(self.transitions),
            "transition_keys": sorted(hashlib.sha256(repr(t).encode()).hexdigest()[:12] for t in self.transitions),
            "sim_seconds": 0.0, "requests": self.returned + self.raised_under_fault,
            "returned": self.returned, "rejected": self.raised_under_fault, "interrupted": self.crashes,
            "skipped": self.skipped, "refs": 0, "nontrivial": nontrivial, "ops": len(self.trace["ops"]),
            "per_op_sites": self.per_op_sites,
            "extra": {"discarded_writes_after_crash": self.fs.discarded_after_crash},
        }


def _scribble(out, what):
    import numpy as np

    if what == "values":
        for k in list(out.keys()):
            v = out[k]
            if _is_obs(k) and v:
                for r in v:
                    for o in list(r.orders):
                        ve = r.orders[o]
                        try:
                            ve[0][...] = 3.25
                        except Exception:  # noqa: BLE001
                            r.orders[o] = (np.full_like(np.asarray(ve[0]), 3.25), ve[1])
    elif what == "specials":
        # values a runner output can contain and a serialiser may mangle: signed zero, subnormals, the
        # largest finite double, tiny negative numbers, and the non-finite values heavy N3LO terms carry
        # in this very environment (the shipped grids contain NaN)
        specials = [-0.0, 5e-324, 1.7976931348623157e308, -1e-310, float("nan"), float("inf"), float("-inf"),
                    1e-300, -2.2250738585072014e-308, 0.1 + 0.2, 1e16, 123456789012345678.0]
        k = 0
        for name in sorted(x for x in out.keys() if _is_obs(x)):
            v = out[name]
            if not v:
                continue
            for r in v:
                for o in list(r.orders):
                    ve = r.orders[o]
                    for arr in (ve[0], ve[1]):
                        try:
                            flat = np.asarray(arr).reshape(-1)
                            for j in range(min(3, flat.size)):
                                flat[(7 * k + 3 * j) % flat.size] = specials[k % len(specials)]
                                k += 1
                        except Exception:  # noqa: BLE001
                            pass
    elif what == "meta":
        try:
            g = out["xgrid"]["grid"]
            g[0] = g[0] * 0.5
        except Exception:  # noqa: BLE001
            pass
        out["projectilePID"] = -out.get("projectilePID", 11)
    elif what == "cards":
        if isinstance(out.theory, dict):
            out.theory["PTO"] = 7
        if isinstance(out.observables, dict):
            out.observables["prDIS"] = "scribbled"
    elif what == "kin":
        for k in list(out.keys()):
            v = out[k]
            if _is_obs(k) and v:
                v[0].Q2 = float(v[0].Q2) + 1.0


def execute(trace, collect_states=True):
    return Execution(trace, collect_states).run()


def violation_class(v):
    return (v["oracle"], v.get("op"))


# ------------------------------------------------------------------------------------
# shrinking
# ------------------------------------------------------------------------------------

def normalise(trace):
    t = dict(trace)
    live, files, streams, ops = set(), set(), set(), []
    for op in trace["ops"]:
        k = op["op"]
        if k == "make_output":
            if op["card"] not in trace["outputs"]:
                continue
            live.add(op["handle"])
        elif k in ("dump_tar", "dump_yaml_file"):
            if op["handle"] not in live:
                continue
            files.add(op["path"])
        elif k == "dump_yaml_stream":
            if op["handle"] not in live:
                continue
            streams.add(op["stream"])
        elif k in ("load_tar", "load_yaml_file"):
            if op["path"] not in files:
                continue
            live.add(op["handle"])
        elif k == "load_yaml_stream":
            if op["stream"] not in streams:
                continue
            live.add(op["handle"])
        elif k == "rename":
            if op["path"] not in files:
                continue
            files.discard(op["path"])
            files.add(op["to"])
        elif k in ("scribble", "set_none"):
            if op["handle"] not in live:
                continue
        elif k == "crash_restart":
            live, streams = set(), set()
        ops.append(op)
    t["ops"] = ops
    used = {o["card"] for o in ops if o["op"] == "make_output"}
    t["outputs"] = {k: v for k, v in trace["outputs"].items() if k in used}
    return t


def candidates(trace):
    ops = trace["ops"]
    n = len(ops)
    size = max(1, n // 2)
    while size >= 1:
        for start in range(0, n, size):
            t = copy.deepcopy(trace)
            del t["ops"][start:start + size]
            yield f"drop ops[{start}:{start + size}]", normalise(t)
        if size == 1:
            break
        size //= 2
    for i, op in enumerate(ops):
        for j in range(len(op.get("faults", []))):
            t = copy.deepcopy(trace)
            del t["ops"][i]["faults"][j]
            yield f"drop fault {i}.{j}", t
    for c, card in trace["outputs"].items():
        if len(card["observables"]) > 1:
            for j in range(len(card["observables"])):
                t = copy.deepcopy(trace)
                del t["outputs"][c]["observables"][j]
                yield f"drop observable {c}.{j}", t
        for j, (name, pts) in enumerate(card["observables"]):
            if len(pts) > 1:
                for k in range(len(pts)):
                    t = copy.deepcopy(trace)
                    del t["outputs"][c]["observables"][j][1][k]
                    yield f"drop point {c}.{j}.{k}", t
        th = card["theory"]
        for upd in ({"PTO": 0, "PTODIS": 0}, {"TMC": 0}, {"FNS": "ZM-VFNS"}, {"FactScaleVar": False, "RenScaleVar": False}):
            if any(th.get(k) != v for k, v in upd.items()):
                t = copy.deepcopy(trace)
                t["outputs"][c]["theory"].update(upd)
                yield f"simplify {c} {upd}", t


# ------------------------------------------------------------------------------------
# thorough tier: exhaustive single-fault enumeration over the ops of a short history
# ------------------------------------------------------------------------------------

ENUM_KINDS = {
    "io_open": [{"do": "open_fail", "arg": "EMFILE"}, {"do": "crash"}],
    "io_write": [{"do": "write_err", "arg": "EIO"}, {"do": "write_torn", "frac": 0.5},
                 {"do": "short_write", "frac": 0.5}, {"do": "crash", "frac": 0.5}, {"do": "crash", "frac": 0.0}],
    "io_read": [{"do": "read_err", "arg": "EIO"}, {"do": "short_read", "frac": 0.5}, {"do": "crash"}],
    "mkdir": [{"do": "mkdir_fail", "arg": "ENOSPC"}, {"do": "crash"}],
}


def generate_enum_base(run_seed, jit=False):
    """A short fault-free base history whose every I/O op will get every single fault."""
    st = Streams(run_seed)
    cfg, ops_rng = st["config"], st["ops"]
    outputs = {"C0": gen_output_card(cfg), "C1": gen_output_card(cfg)}
    fmt1 = ops_rng.choice(["tar", "yaml"])
    fmt2 = ops_rng.choice(["tar", "yaml"])
    p1 = {"tar": "a.tar", "yaml": "a.yaml"}[fmt1]
    same_path = fmt1 == fmt2 and ops_rng.random() < 0.6
    p2 = p1 if same_path else {"tar": "b.tar", "yaml": "b.yaml"}[fmt2]
    d = {"tar": "dump_tar", "yaml": "dump_yaml_file"}
    l = {"tar": "load_tar", "yaml": "load_yaml_file"}
    ops = [
        {"op": "make_output", "card": "C0", "handle": "H0"},
        {"op": "make_output", "card": "C1", "handle": "H1"},
        {"op": d[fmt1], "handle": "H0", "path": p1},
        {"op": l[fmt1], "path": p1, "handle": "H2"},
        # overwrite with another object, or re-dump the loaded object in the other format
        {"op": d[fmt2], "handle": ops_rng.choice(["H1", "H2"]), "path": p2},
        {"op": l[fmt2], "path": p2, "handle": "H3"},
        {"op": l[fmt1], "path": p1, "handle": "H4"},
        # liveness after the fault: a fault-free dump + load on the path that may be torn
        {"op": d[fmt2], "handle": "H0", "path": p2},
        {"op": l[fmt2], "path": p2, "handle": "H5"},
    ]
    for i, op in enumerate(ops):
        op.update(id=i, client=0, faults=[])
    return {"format": 1, "property": PROPERTY, "run_seed": int(run_seed), "fault_config": "enumerated",
            "jit": bool(jit), "outputs": outputs, "ops": ops}


def enum_run(run_seed, jit=False, max_cases=2000):
    """Execute the base history, then one variant per (op, site, call index, fault kind)."""
    import collections

    base = generate_enum_base(run_seed, jit)
    rep0 = execute(base, collect_states=True)
    total = {"evaluations": 1, "fired": collections.Counter(), "probes": collections.Counter(rep0["probes"]),
             "states": set(rep0["states"]), "transition_keys": set(rep0["transition_keys"]),
             "steps": rep0["steps"], "site_totals": collections.Counter(rep0["site_totals"]),
             "violations": [], "ops": rep0["ops"], "returned": rep0["returned"], "rejected": rep0["rejected"],
             "interrupted": rep0["interrupted"], "enumerated_ops": 0, "single_fault_cases": 0,
             "cases_fault_not_reached": 0, "digests": [rep0["digest"]], "truncated": False}
    if rep0["violations"]:
        total["violations"].append({"trace": base, "violation": rep0["violations"][0]})
        return total
    for j, op in enumerate(base["ops"][:7]):
        if op["op"] not in DUMPS + LOADS:
            continue
        counts = rep0["per_op_sites"][j]
        total["enumerated_ops"] += 1
        for site, n in sorted(counts.items()):
            for k in range(n):
                for kind in ENUM_KINDS.get(site, []):
                    if total["single_fault_cases"] >= max_cases:
                        total["truncated"] = True
                        return _enum_finish(total)
                    t = copy.deepcopy(base)
                    f = dict(kind)
                    f.update(site=site, call=k)
                    t["ops"][j]["faults"] = [f]
                    rep = execute(t, collect_states=True)
                    total["evaluations"] += 1
                    total["single_fault_cases"] += 1
                    if not rep["fired"]:
                        total["cases_fault_not_reached"] += 1
                    total["fired"].update(rep["fired"])
                    total["probes"].update(rep["probes"])
                    total["states"].update(rep["states"])
                    total["transition_keys"].update(rep["transition_keys"])
                    total["steps"] += rep["steps"]
                    total["site_totals"].update(rep["site_totals"])
                    total["digests"].append(rep["digest"])
                    for key in ("ops", "returned", "rejected", "interrupted"):
                        total[key] += rep[key]
                    if rep["violations"] and len(total["violations"]) < 3:
                        total["violations"].append({"trace": t, "violation": rep["violations"][0]})
    return _enum_finish(total)


def _enum_finish(total):
    h = hashlib.sha256("".join(total.pop("digests")).encode()).hexdigest()
    total["digest"] = h
    total["fired"] = dict(total["fired"])
    total["probes"] = dict(total["probes"])
    total["site_totals"] = dict(total["site_totals"])
    total["states"] = sorted(total["states"])
    total["transition_keys"] = sorted(total["transition_keys"])
    return total
