"""Command line: ``python -m yadsim.cli <C14|C15|C20> <quick|thorough>`` and
``python -m yadsim.cli replay <path>``.

Exit codes: 0 held on everything explored (or only listed known findings); 1 violation;
2 harness error (never reported as a violation).
"""

import json
import os
import sys

from . import plans


def main(argv=None):
    argv = list(sys.argv[1:] if argv is None else argv)
    if not argv:
        print(__doc__)
        return 2
    if argv[0] == "replay":
        from . import replay

        return replay.main(argv[1:])
    if argv[0] == "selftest":
        from . import selftest

        return selftest.main(argv[1:])
    prop = argv[0]
    tier = argv[1] if len(argv) > 1 else os.environ.get("VERIF_TIER", "quick")
    if tier not in ("quick", "thorough"):
        print(f"unknown tier {tier}")
        return 2
    try:
        seed = int(os.environ.get("VERIF_SEED", "0") or 0)
    except ValueError:
        seed = 0
    from . import batch

    plan = plans.get(prop, tier)
    try:
        return batch.run_check(prop, tier, plan, seed)
    except batch.HarnessError as e:
        print(f"HARNESS-ERROR {e}", flush=True)
        return 2


if __name__ == "__main__":
    sys.exit(main())
