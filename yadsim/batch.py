"""Parent side: worker pool with watchdogs, batches, determinism self-test, violation
processing (shrink → replay file → fresh-process confirmation), evidence.

The parent never imports numba or yadism.
"""

import collections
import json
import os
import pathlib
import selectors
import shutil
import subprocess
import sys
import tempfile
import time

from . import findings
from .prng import derive

VERIF = pathlib.Path(__file__).resolve().parent.parent
PY = os.environ.get("YADSIM_PYTHON", "/venv/bin/python")


class HarnessError(Exception):
    pass


class Worker:
    def __init__(self, wid, jit, hashseed, logdir, extra_env=None):
        self.wid = wid
        env = dict(os.environ)
        env["YADSIM_JIT"] = "1" if jit else "0"
        env["PYTHONHASHSEED"] = str(hashseed)
        env["PYTHONPATH"] = str(VERIF)
        env["PYTHONDONTWRITEBYTECODE"] = "1"
        env.pop("NUMBA_DISABLE_JIT", None)
        if extra_env:
            env.update(extra_env)
        self.log = open(pathlib.Path(logdir) / f"worker-{wid}.log", "ab")
        self.p = subprocess.Popen(
            [PY, "-m", "yadsim.worker"], cwd=str(VERIF), env=env,
            stdin=subprocess.PIPE, stdout=subprocess.PIPE, stderr=self.log, bufsize=0)
        self.buf = b""
        self.task = None
        self.deadline = None
        self.ready = False
        self.info = None
        self.started = time.monotonic()

    def send(self, msg):
        self.p.stdin.write((json.dumps(msg) + "\n").encode())
        self.p.stdin.flush()

    def kill(self):
        try:
            self.p.kill()
        except Exception:  # noqa: BLE001
            pass
        try:
            self.p.wait(timeout=10)
        except Exception:  # noqa: BLE001
            pass
        for f in (self.p.stdin, self.p.stdout, self.log):
            try:
                f.close()
            except Exception:  # noqa: BLE001
                pass

    def quit(self):
        try:
            self.send({"cmd": "quit"})
            self.p.stdin.close()
            self.p.wait(timeout=20)
        except Exception:  # noqa: BLE001
            pass
        self.kill()


def run_tasks(tasks, nworkers, jit, hashseed, logdir, on_result, wall_cap=None, startup_timeout=600,
              extra_env=None):
    """Execute ``tasks`` (dicts with 'watchdog') on a pool; call on_result(task, reply).

    reply is the worker's JSON answer or {"error": "watchdog"|"worker-died"}.
    Returns the number of tasks that were not issued because of the wall cap.
    """
    tasks = collections.deque(tasks)
    sel = selectors.DefaultSelector()
    workers = {}
    nextid = [0]
    t0 = time.monotonic()

    def spawn():
        w = Worker(f"{'j' if jit else 'n'}{hashseed}-{nextid[0]}", jit, hashseed, logdir, extra_env)
        nextid[0] += 1
        sel.register(w.p.stdout, selectors.EVENT_READ, w)
        workers[w.wid] = w
        return w

    def retire(w):
        try:
            sel.unregister(w.p.stdout)
        except Exception:  # noqa: BLE001
            pass
        workers.pop(w.wid, None)
        w.kill()

    for _ in range(min(nworkers, max(1, len(tasks)))):
        spawn()
    unissued = 0
    respawns = 0
    while workers:
        now = time.monotonic()
        capped = wall_cap is not None and now - t0 > wall_cap
        # hand out work
        for w in list(workers.values()):
            if w.ready and w.task is None:
                if tasks and not capped:
                    w.task = tasks.popleft()
                    w.deadline = now + float(w.task.get("watchdog", 300)) + 15.0
                    w.send(w.task)
                else:
                    sel.unregister(w.p.stdout)
                    workers.pop(w.wid)
                    w.quit()
        if capped and tasks:
            unissued = len(tasks)
            tasks.clear()
        if not workers:
            break
        for key, _ in sel.select(timeout=1.0):
            w = key.data
            try:
                chunk = os.read(w.p.stdout.fileno(), 1 << 20)
            except OSError:
                chunk = b""
            if not chunk:
                # worker died
                task = w.task
                retire(w)
                if task is not None:
                    on_result(task, {"error": "worker-died", "worker": w.wid})
                elif not w.ready:
                    raise HarnessError(f"worker {w.wid} died during start-up (see log)")
                if tasks and respawns < 50:
                    respawns += 1
                    spawn()
                continue
            w.buf += chunk
            while b"\n" in w.buf:
                line, w.buf = w.buf.split(b"\n", 1)
                if not line.strip():
                    continue
                msg = json.loads(line)
                if msg.get("ready"):
                    w.ready = True
                    w.info = msg
                    continue
                task, w.task, w.deadline = w.task, None, None
                on_result(task, msg)
        now = time.monotonic()
        for w in list(workers.values()):
            if w.task is not None and now > w.deadline:
                task = w.task
                retire(w)
                on_result(task, {"error": "watchdog", "worker": w.wid})
                if tasks and respawns < 50:
                    respawns += 1
                    spawn()
            elif not w.ready and now - w.started > startup_timeout:
                retire(w)
                raise HarnessError("worker start-up timed out")
    return unissued


def fresh_replay(path, jit, hashseed="7"):
    """Replay a trace file in a fresh interpreter.  Returns (exit code, stdout)."""
    env = dict(os.environ)
    env["PYTHONHASHSEED"] = hashseed
    env["PYTHONPATH"] = str(VERIF)
    env["YADSIM_JIT"] = "1" if jit else "0"
    env.pop("NUMBA_DISABLE_JIT", None)
    p = subprocess.run([PY, "-m", "yadsim.cli", "replay", str(path)], cwd=str(VERIF), env=env,
                       capture_output=True, text=True, timeout=1800)
    return p.returncode, p.stdout + p.stderr


def _session_replay(prop, seed, task, rdir):
    """A violation that vanishes when its run is executed alone may need state left behind by the runs the
    same worker process executed before it (a leak across runners of one process).  Try the run preceded by its
    last 1, 2, 3 predecessors in one fresh interpreter; return (replay path, violation) if that reproduces."""
    from .registry import trace_digest

    prev = task.get("_prev") or []
    v = task.get("_viol") or {}
    for k in range(1, len(prev) + 1):
        sess = {"property": prop, "jit": bool(task.get("_jit")), "session": prev[-k:] + [task["trace"]],
                "note": "the last run violates only when the preceding runs were executed in the same process",
                "expect": {"oracle": v.get("oracle"), "op": v.get("op"), "at_op": v.get("at_op"),
                           "what": v.get("what"), "detail": v.get("detail"), "tags": v.get("tags", [])}}
        path = rdir / f"{prop}-{seed}-{task['index']}-session{k}-{trace_digest(task['trace'])[:10]}.json"
        path.write_text(json.dumps(sess, indent=1))
        rc, _out = fresh_replay(path, bool(task.get("_jit")))
        if rc == 1:
            return path, dict(v, detail=str(v.get("detail")) + f" [needs the {k} preceding run(s) of the same process: "
                                                                  "state leaks across runners of one process]")
        try:
            path.unlink()
        except OSError:
            pass
    return None


class Aggregate:
    """Everything the evidence file reports, measured from the replies."""

    def __init__(self):
        self.evaluations = 0
        self.fired = collections.Counter()
        self.unfired = 0
        self.probes = collections.Counter()
        self.site_totals = collections.Counter()
        self.states = set()
        self.transition_keys = set()
        self.steps = 0
        self.sim_seconds = 0.0
        self.by_config = collections.Counter()
        self.by_jit = collections.Counter()
        self.nontrivial_digests = set()
        self.trace_digests = set()
        self.digests = {}  # (index, jit) -> digest
        self.requests = 0
        self.returned = 0
        self.rejected = 0
        self.interrupted = 0
        self.refs = 0
        self.ops = 0
        self.inconclusive = []
        self.errors = []
        self.violations = []  # (task, reply)
        self.samples = []
        self.cells = set()
        self.extra = collections.Counter()
        self.worker_wall = 0.0
        self.enum_nontrivial = 0
        self.enum_digests = {}
        self.slowest = []

    def add(self, task, reply):
        now = time.monotonic()
        if now - getattr(self, "_last_print", 0) > 120:
            if hasattr(self, "_last_print"):
                print(f"[yadsim] progress: {self.evaluations} evaluations, {len(self.violations)} violating, "
                      f"{len(self.inconclusive)} inconclusive", flush=True)
            self._last_print = now
        if "error" in reply:
            if reply["error"] in ("watchdog", "worker-died"):
                self.inconclusive.append((task.get("index"), reply["error"]))
            else:
                self.errors.append((task.get("index"), reply["error"], reply.get("traceback", "")))
            return
        rep = reply["report"]
        if reply.get("cmd") == "enum":
            return self.add_enum(task, reply)
        self.evaluations += 1
        self.worker_wall += reply.get("wall", 0.0)
        self.slowest.append((round(reply.get("wall", 0.0), 2), task.get("index")))
        self.slowest = sorted(self.slowest, reverse=True)[:5]
        self.fired.update(rep.get("fired", {}))
        self.unfired += rep.get("unfired", 0)
        self.probes.update(rep.get("probes", {}))
        self.site_totals.update(rep.get("site_totals", {}))
        self.states.update(rep.get("states", []))
        self.transition_keys.update(rep.get("transition_keys", []))
        self.steps += rep.get("steps", 0)
        self.sim_seconds += rep.get("sim_seconds", 0.0)
        self.by_config[task["params"].get("fault_config", "?")] += 1
        self.by_jit["jit_on" if task.get("_jit") else "jit_off"] += 1
        self.trace_digests.add(reply.get("trace_digest"))
        if rep.get("nontrivial"):
            self.nontrivial_digests.add(reply.get("trace_digest"))
        self.digests[(task["index"], bool(task.get("_jit")))] = rep["digest"]
        for k in ("requests", "returned", "rejected", "interrupted", "refs", "ops"):
            setattr(self, k, getattr(self, k) + rep.get(k, 0))
        for c in rep.get("cells", []):
            self.cells.add(tuple(c) if isinstance(c, list) else c)
        self.extra.update(rep.get("extra", {}))
        if rep["violations"]:
            self.violations.append((task, reply))
        if reply.get("trace") is not None and len(self.samples) < 3 and not rep["violations"]:
            self.samples.append({"trace": reply["trace"], "outcome": {
                k: rep.get(k) for k in ("fired", "returned", "rejected", "interrupted", "digest")}})


def _add_enum(self, task, reply):
    rep = reply["report"]
    self.evaluations += rep["evaluations"]
    self.worker_wall += reply.get("wall", 0.0)
    self.fired.update(rep.get("fired", {}))
    self.probes.update(rep.get("probes", {}))
    self.site_totals.update(rep.get("site_totals", {}))
    self.states.update(rep.get("states", []))
    self.transition_keys.update(rep.get("transition_keys", []))
    self.steps += rep.get("steps", 0)
    self.by_config["enumerated-single-fault"] += rep["evaluations"]
    self.by_jit["jit_on" if task.get("_jit") else "jit_off"] += rep["evaluations"]
    for k in ("returned", "rejected", "interrupted", "ops"):
        setattr(self, k, getattr(self, k) + rep.get(k, 0))
    self.requests += rep.get("returned", 0) + rep.get("rejected", 0)
    self.extra["enum_histories"] += 1
    self.extra["enum_ops_fully_enumerated"] += rep.get("enumerated_ops", 0)
    self.extra["enum_single_fault_cases"] += rep.get("single_fault_cases", 0)
    self.extra["enum_cases_fault_site_not_reached"] += rep.get("cases_fault_not_reached", 0)
    self.extra["enum_histories_truncated"] += 1 if rep.get("truncated") else 0
    self.enum_nontrivial += rep.get("single_fault_cases", 0) - rep.get("cases_fault_not_reached", 0)
    self.enum_digests[(task["index"], bool(task.get("_jit")))] = rep["digest"]
    for v in rep.get("violations", []):
        self.violations.append((task, {"trace": v["trace"], "report": {"violations": [v["violation"]]}}))


Aggregate.add_enum = _add_enum


def run_check(prop, tier, plan, seed):
    """Run one registered check.  Returns the process exit code."""
    t_start = time.monotonic()
    logdir = tempfile.mkdtemp(prefix=f"yadsim-{prop}-")
    nworkers = int(os.environ.get("YADSIM_WORKERS", os.cpu_count() or 4))
    agg = Aggregate()
    harness_errors = []
    lines = []
    exit_code = 0
    try:
        print(f"[yadsim] property={prop} tier={tier} VERIF_SEED={seed} workers={nworkers} "
              f"runs={plan['n_runs']} scratch={logdir}", flush=True)
        # ---------------- phase A: main batch(es) ----------------
        modes = plan["jit_modes"]  # list of jit booleans; index i uses modes[i % len(modes)]
        for jit in sorted(set(modes)):
            tasks = []
            for i in range(plan["n_runs"]):
                if modes[i % len(modes)] != jit:
                    continue
                tasks.append({"cmd": "run", "prop": prop, "seed": seed, "index": i, "tier": tier,
                              "params": plan["params"](i, jit), "watchdog": plan["watchdog"],
                              "want_trace": i < 3, "_jit": jit})
            if not tasks:
                continue
            un = run_tasks(tasks, nworkers, jit, 0, logdir, agg.add, wall_cap=plan.get("wall_cap"))
            if un:
                print(f"[yadsim] wall cap reached: {un} runs not issued (jit={jit})", flush=True)
                agg.extra["runs_not_issued_wall_cap"] += un
        if plan.get("enum_runs"):
            etasks = [{"cmd": "enum", "prop": prop, "seed": seed, "index": i, "tier": tier, "params": {},
                       "watchdog": plan.get("enum_watchdog", 3600), "max_cases": plan.get("enum_max_cases", 600),
                       "_jit": False} for i in range(plan["enum_runs"])]
            un = run_tasks(etasks, nworkers, False, 0, logdir, agg.add, wall_cap=plan.get("enum_wall_cap"))
            if un:
                agg.extra["enum_histories_not_issued_wall_cap"] += un
        t_main = time.monotonic() - t_start
        # ---------------- phase B: determinism re-execution ----------------
        det = {"reexecuted": 0, "mismatches": 0, "modes": []}
        done = sorted(agg.digests)
        if done and plan.get("det_sample", 0):
            import random

            r = random.Random(derive(seed, "det", prop, tier))
            sample = r.sample(done, min(plan["det_sample"], len(done)))
            for rounds, (hs, nw) in enumerate(plan.get("det_rounds", [(12345, 1)])):
                for jit in sorted(set(j for _, j in sample)):
                    sub = [s for s in sample if s[1] == jit]
                    sub = list(reversed(sub)) if rounds % 2 == 0 else sub
                    tasks = [{"cmd": "run", "prop": prop, "seed": seed, "index": i, "tier": tier,
                              "params": plan["params"](i, jit), "watchdog": plan["watchdog"], "_jit": jit}
                             for i, _ in sub]
                    got = {}

                    def on(task, reply, got=got):
                        if "report" in reply:
                            got[(task["index"], bool(task["_jit"]))] = reply["report"]["digest"]

                    run_tasks(tasks, nw, jit, hs, logdir, on)
                    det["modes"].append({"pythonhashseed": hs, "workers": nw, "jit": jit, "runs": len(got)})
                    for k, d in got.items():
                        det["reexecuted"] += 1
                        if agg.digests[k] != d:
                            det["mismatches"] += 1
                            harness_errors.append(f"nondeterminism index={k[0]} jit={k[1]} "
                                                  f"{agg.digests[k][:12]} != {d[:12]} (hashseed {hs}, workers {nw})")
        # ---------------- phase C: violations ----------------
        known = findings.load()
        reported = []
        seen_classes = collections.Counter()
        has_open = findings.has_open(known, prop)
        if agg.violations:
            from .registry import trace_digest

            rdir = pathlib.Path(os.environ.get("YADSIM_REPLAY_DIR", str(VERIF / "replays")))
            rdir.mkdir(parents=True, exist_ok=True)
            queues = collections.OrderedDict()
            for task, reply in agg.violations:
                v = reply["report"]["violations"][0]
                cls = (v["oracle"], v.get("op"))
                seen_classes[cls] += 1
                queues.setdefault(cls, collections.deque()).append((task, reply))
            per_class = plan.get("max_shrinks_with_open_findings", 40) if has_open else plan.get("shrink_per_class", 2)
            total_cap = plan.get("max_shrinks_with_open_findings", 40) if has_open else plan.get("max_shrinks", 6)
            confirmed = collections.Counter()
            attempts = collections.Counter()
            unreproduced = []
            # Violations that do not reproduce in a fresh interpreter (state leaking from an earlier run of the
            # same worker) are HARNESS-ERRORs, never VIOLATIONs; but before giving up on a class, further
            # violating runs of that class are tried, so that a leak which is *also* visible inside one run is
            # reported as what it is.
            for _round in range(8):
                todo = []
                for cls, q in queues.items():
                    want = per_class - confirmed[cls]
                    while q and want > 0 and attempts[cls] < per_class + 12 and len(reported) + len(todo) < total_cap:
                        todo.append((cls,) + q.popleft())
                        attempts[cls] += 1
                        want -= 1
                if not todo:
                    break
                results = []

                def on_shrunk(task, reply, results=results):
                    results.append((task, reply))

                for jit in sorted(set(bool(t.get("_jit")) for _, t, _ in todo)):
                    stasks = [{"cmd": "shrink", "prop": prop, "trace": reply["trace"], "index": task["index"],
                               "_prev": reply.get("prev_traces") or [], "_viol": reply["report"]["violations"][0],
                               "watchdog": plan.get("shrink_watchdog", 900), "max_seconds": plan.get("shrink_seconds", 240),
                               "max_exec": plan.get("shrink_execs", 150), "_jit": jit, "params": task["params"], "_cls": list(cls)}
                              for cls, task, reply in todo if bool(task.get("_jit")) == jit]
                    run_tasks(stasks, min(nworkers, len(stasks)), jit, 0, logdir, on_shrunk)
                for task, reply in results:
                    cls = tuple(task.get("_cls") or ())
                    if "error" in reply or reply.get("min_trace") is None:
                        sess = _session_replay(prop, seed, task, rdir) if "error" not in reply else None
                        if sess is not None:
                            confirmed[cls] += 1
                            reported.append((sess[0], sess[1], None))
                        else:
                            unreproduced.append(f"index={task['index']}: {reply.get('error', 'violation vanished on re-execution in a fresh worker')}")
                        continue
                    m = reply["min_trace"]
                    v = reply["report"]["violations"][0]
                    m["expect"] = {"oracle": v["oracle"], "op": v.get("op"), "at_op": v["at_op"],
                                   "what": v["what"], "detail": v["detail"], "tags": v.get("tags", [])}
                    m["jit"] = bool(task.get("_jit"))
                    path = rdir / f"{prop}-{seed}-{task['index']}-{trace_digest(m)[:10]}.json"
                    path.write_text(json.dumps(m, indent=1))
                    rc, out = fresh_replay(path, bool(task.get("_jit")))
                    if rc != 1:
                        sess = _session_replay(prop, seed, task, rdir)
                        if sess is not None:
                            confirmed[cls] += 1
                            reported.append((sess[0], sess[1], None))
                        else:
                            unreproduced.append(f"index={task['index']}: fresh replay of {path} exited {rc}")
                        continue
                    confirmed[cls] += 1
                    kf = findings.match(known, prop, m)
                    reported.append((path, v, kf))
            for u in unreproduced[:6]:
                harness_errors.append(f"nondeterministic-violation {u}")
            if len(unreproduced) > 6:
                harness_errors.append(f"nondeterministic-violation … and {len(unreproduced) - 6} more")
        n_new = 0
        printed_known = set()
        for path, v, kf in reported:
            if kf is not None and kf.get("status") == "open":
                if kf["id"] not in printed_known:
                    lines.append(f"KNOWN-FINDING: property={prop} {kf['id']} {kf['what']} (replay={path})")
                    printed_known.add(kf["id"])
            else:
                n_new += 1
                lines.append(f"VIOLATION property={prop} replay={path}")
                lines.append(f"  oracle={v['oracle']} at_op={v['at_op']} what={json.dumps(v['what'])} detail={v['detail']}")
                if kf is not None:
                    lines.append(f"  note: matches entry {kf['id']} recorded as fixed in known_findings.json — it has returned")
        unprocessed = sum(seen_classes.values()) - len(reported)
        if has_open and unprocessed > 0 and not n_new:
            # violating runs that could not be minimised and classified are never assumed to be the listed finding
            n_new += 1
            lines.append(f"VIOLATION property={prop} replay=<{unprocessed} violating runs were not minimised; "
                         f"re-run with a smaller batch>")
        # ---------------- evidence + verdict ----------------
        total = agg.evaluations + len(agg.inconclusive) + len(agg.errors)
        if agg.errors:
            for idx, err, tb in agg.errors[:5]:
                harness_errors.append(f"simulator exception index={idx}: {err}\n{tb[-1500:]}")
        if total and len(agg.inconclusive) > 0.1 * total:
            harness_errors.append(f"{len(agg.inconclusive)} of {total} runs inconclusive (watchdog/worker death)")
        if agg.evaluations == 0:
            harness_errors.append("no run completed")
        wall = time.monotonic() - t_start
        ev = plan["evidence"](agg, det, tier, seed, wall, t_main, n_new,
                              [str(p) for p, _, _ in reported], unprocessed)
        # evidence under /verif/evidence only ever describes runs against /repo itself
        foreign = os.path.realpath(os.environ.get("YADSIM_SRC", "/repo/src")) != os.path.realpath("/repo/src")
        edir = pathlib.Path(os.environ.get("YADSIM_EVIDENCE_DIR",
                                           str(VERIF / ("replays/evidence-scratch" if foreign else "evidence"))))
        edir.mkdir(parents=True, exist_ok=True)
        (edir / f"{prop}.json").write_text(json.dumps(ev, indent=1, sort_keys=False))
        for ln in lines:
            print(ln, flush=True)
        print(f"[yadsim] {prop} {tier}: runs={agg.evaluations} inconclusive={len(agg.inconclusive)} "
              f"violating_runs={len(agg.violations)} new_violations={n_new} "
              f"faults_fired={sum(agg.fired.values())} det_reexec={det['reexecuted']} "
              f"det_mismatch={det['mismatches']} wall={wall:.1f}s", flush=True)
        if harness_errors:
            for h in harness_errors:
                print(f"HARNESS-ERROR {h}", flush=True)
            # keep worker logs for diagnosis
            keep = pathlib.Path(os.environ.get("YADSIM_REPLAY_DIR", str(VERIF / "replays"))) / f"harness-logs-{prop}"
            shutil.rmtree(keep, ignore_errors=True)
            shutil.copytree(logdir, keep)
            exit_code = 2
        if n_new or (agg.violations and not reported and not harness_errors):
            exit_code = 1
    finally:
        shutil.rmtree(logdir, ignore_errors=True)
    return exit_code
