"""Per-property, per-tier plans (run counts — not wall time — so that one (seed, tier)
explores the same runs on any machine) and evidence builders."""

import os

FAULT_CONFIGS = ["none", "transparent", "failing", "all"]

COMPONENTS = {
    "real": [
        "yadism.runner.Runner / RunnerConfigs", "yadism.sf.StructureFunction", "yadism.xs.CrossSection",
        "yadism.esf.* (ESF, TMC, EXS, conv, scale_variations, result)", "yadism.coefficient_functions.*",
        "yadism.input.compatibility", "yadism.output.Output (tar/npz/yaml writers and readers)",
        "eko interpolation/matchings", "scipy.integrate.quad", "numba kernels (JIT on in thorough half)",
        "LeProHQ", "numpy.savez_compressed/np.load + zipfile + tarfile + tempfile + pathlib + PyYAML",
        "rich console/markdown/progress rendering", "python logging + RichHandler",
    ],
    "stub": [
        "rich.progress._RefreshThread (replaced by scheduler-driven synchronous refresh)",
        "time.time / time.perf_counter / rich get_time (SimClock)",
        "raw file layer: io.FileIO subclass with scheduler-decided faults (bytes still hit a real scratch fs)",
        "console sink (StringIO subclass that may raise EPIPE)",
    ],
}


def _scale(n):
    """YADSIM_SCALE lets a developer shrink/grow budgets; registered commands do not set it."""
    try:
        return max(1, int(n * float(os.environ.get("YADSIM_SCALE", "1"))))
    except ValueError:
        return n


def _common_evidence(prop, level, agg, det, tier, seed, wall, t_main, n_new, replays, unprocessed,
                     rule, assumptions, extra_cov):
    hours = max(wall, 1e-9) / 3600.0
    cov = {
        "evaluations": agg.evaluations,
        "distinct_nontrivial": len(agg.nontrivial_digests) + agg.enum_nontrivial,
        "rule": rule,
        "samples": agg.samples[:2] if agg.samples else [{"note": "no clean sample trace captured"}],
        "exhaustive": False,
        "distinct_traces": len(agg.trace_digests),
        "seeds": len(agg.digests) + agg.extra.get("enum_histories", 0),
        "runs_per_hour": round(agg.evaluations / hours),
        "seeds_per_hour": round((len(agg.digests) + agg.extra.get("enum_histories", 0)) / hours),
        "scheduler_steps": agg.steps,
        "ops": agg.ops,
        "simulated_seconds": round(agg.sim_seconds, 3),
        "simulated_time_note": "no yadism behaviour depends on time; reported for completeness",
        "faults_fired": dict(sorted(agg.fired.items())),
        "faults_scheduled_but_site_not_reached": agg.unfired,
        "seam_consultations": dict(sorted(agg.site_totals.items())),
        "runs_by_fault_config": dict(sorted(agg.by_config.items())),
        "runs_by_jit_mode": dict(sorted(agg.by_jit.items())),
        "reach_probes": dict(sorted(agg.probes.items())),
        "states": len(agg.states),
        "transitions": len(agg.transition_keys),
        "state_measure": "distinct abstract signatures (per runner: per observable cache size and computed-element count, "
                         "sv-memo key set; global memo key set; C15: per-path file status) and distinct "
                         "(signature, op kind, fired fault kinds, next signature) transitions",
        "requests": agg.requests, "returned": agg.returned, "rejected_consistently": agg.rejected,
        "interrupted_requests": agg.interrupted, "isolated_references_computed": agg.refs,
        "watchdog_or_worker_death": len(agg.inconclusive),
        "runs_not_issued_wall_cap": agg.extra.get("runs_not_issued_wall_cap", 0),
        "determinism": det,
        "components": COMPONENTS,
        "violating_runs": len(agg.violations),
        "violations_not_minimised": unprocessed,
        "replays": replays,
        "worker_cpu_seconds": round(agg.worker_wall, 1),
        "main_batch_wall_s": round(t_main, 1),
        "slowest_runs_wall_s_and_index": agg.slowest,
    }
    cov.update(extra_cov)
    for k, v in sorted(agg.extra.items()):
        cov.setdefault("extra", {})[k] = v
    return {
        "property_id": prop,
        "tier": tier,
        "seed": seed,
        "level": level,
        "coverage": cov,
        "assumptions": assumptions,
        "wall_s": round(wall, 2),
        "violations": n_new,
    }


# ------------------------------------------------------------------------------------ C14

def c14(tier):
    quick = tier == "quick"

    def params(i, jit):
        p = {"fault_config": FAULT_CONFIGS[i % 4], "budget": 3.0 if quick else 6.0, "max_pto": 2}
        if i % 16 == 5:
            p["big"] = True
        if i % 80 == 77:
            p["huge"] = True  # 16 runs of the quick tier: more than 256 points in one observable
        if i % 32 == 13:
            p["manyq"] = True  # 40-80 points on 34-60 distinct Q2 at leading order, usually with a twin observable
        if i % 12 == 9:
            p.update(many=True, max_pto=1, max_ops=16 if quick else 22)  # four to six live runners
        if not quick and i % 4 == 2:
            p["max_ops"] = 18  # longer histories in the thorough tier
        if jit and not quick:
            p["budget"] = 8.0
            if i % 20 == 19:
                p.update(n3lo=True, budget=30.0, max_ops=9)
        return p

    def evidence(agg, det, tier, seed, wall, t_main, n_new, replays, unprocessed):
        return _common_evidence(
            "C14", "exploration", agg, det, tier, seed, wall, t_main, n_new, replays, unprocessed,
            rule="one run = one seeded history: swarm-drawn cards (process × scheme × order × TMC × scale-variation "
                 "switches × target × grid), 1–3 (one run in 12: 4–6) live runners whose observable lists are permutations/subsets/supersets/"
                 "duplications of one another, ≤12 interleaved client ops (new_runner, get_result, sf/element get_result, "
                 "drop_cache, scribble, evict_global, run_yadism on a permuted/extended card) with explicit fault decisions at seams; every returned result is "
                 "compared bit-for-bit with an isolated single-point fresh-runner reference computed after the history. "
                 "non-trivial = at least one fault fired, or an SF-cache entry was re-used by a later lookup, or a "
                 "returned object was scribbled on; distinct = distinct sha256 of (settings, ops, faults).",
            assumptions=[
                "reference model is a consistency model (same code, canonical single-request history), not a physics oracle",
                "bit-for-bit comparison within one JIT mode and one process family",
                "seeded search samples histories; a clean batch is evidence, not proof",
                "no thread-safety claim: calls are atomic, interleaving = merge order of client programs",
            ],
            extra_cov={})

    return {
        "n_runs": _scale(1280 if quick else 24000),
        "jit_modes": [False] if quick else [False, True],
        "params": params,
        "watchdog": 360 if quick else 900,
        "det_sample": 12 if quick else max(12, _scale(200)),
        "det_rounds": [(12345, 2)] if quick else [(12345, 1), (999, 16)],
        "wall_cap": 900 if quick else 3 * 3600,
        "evidence": evidence,
    }


def get(prop, tier):
    return {"C14": c14, "C15": c15, "C20": c20}[prop](tier)


def c15(tier):
    from . import plans_c15

    return plans_c15.plan(tier)


def c20(tier):
    from . import plans_c20

    return plans_c20.plan(tier)
