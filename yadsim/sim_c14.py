"""C14 — results do not depend on request history or cache state (DESIGN §3).

generate(run_seed, …)  → explicit trace (cards, ops, fault decisions); pure function of the seed
execute(trace)         → runs the real yadism under the seams, checks the oracle, returns a report
"""

import copy
import hashlib
import json
import math

from . import canon, cards
from .prng import Streams
from .seams import Sched, Seams, SimClock, SimInterrupt, FaultyStream

PROPERTY = "C14"

TRANSPARENT = ["evict_sf", "evict_runner", "evict_sv_memo", "evict_global_memo", "evict_n3lo_memo",
               "clock_jump", "clock_back", "clock_freeze", "refresh_now"]
FAILING = ["interrupt_conv", "interrupt_sv", "interrupt_console", "interrupt_line"]
FAULT_SITE = {
    "evict_sf": "get_esf", "evict_runner": "get_esf", "evict_sv_memo": "get_esf",
    "evict_global_memo": "get_esf", "clock_jump": "clock", "clock_back": "clock",
    "clock_freeze": "clock", "refresh_now": "progress", "interrupt_conv": "conv",
    "interrupt_sv": "sv_fill", "interrupt_console": "console", "evict_n3lo_memo": "n3lo_memo",
    "interrupt_line": "line",
}
FAULT_CONFIGS = ["none", "transparent", "failing", "all"]


# ------------------------------------------------------------------------------------
# generation
# ------------------------------------------------------------------------------------

def _variant(rng, base, th, ob, pools):
    """A permutation / subset / superset / duplication of an observable list."""
    lst = copy.deepcopy(base)
    kinds = ["permute_obs", "permute_pts", "subset", "superset", "dup", "single"]
    rng.shuffle(kinds)
    for k in kinds[: rng.randint(1, 3)]:
        if k == "permute_obs":
            rng.shuffle(lst)
        elif k == "permute_pts":
            for _, pts in lst:
                rng.shuffle(pts)
        elif k == "subset" and lst:
            if len(lst) > 1 and rng.random() < 0.5:
                lst.pop(rng.randrange(len(lst)))
            for _, pts in lst:
                if len(pts) > 1 and rng.random() < 0.5:
                    pts.pop(rng.randrange(len(pts)))
        elif k == "superset":
            if rng.random() < 0.5 and len(lst) < 5:
                have = [n for n, _ in lst]
                new = [n for n in cards.gen_obs_names(rng, th, ob, 2) if n not in have]
                if new:
                    lst.insert(rng.randrange(len(lst) + 1),
                               [new[0], cards.gen_points(rng, pools, new[0], rng.randint(1, 2), th)])
            for name, pts in lst:
                if rng.random() < 0.5:
                    extra = cards.gen_points(rng, pools, name, 1, th, plant=False)
                    pts.insert(rng.randrange(len(pts) + 1), extra[0])
        elif k == "dup":
            for _, pts in lst:
                if pts and rng.random() < 0.5:
                    pts.insert(rng.randrange(len(pts) + 1), copy.deepcopy(rng.choice(pts)))
        elif k == "single" and lst:
            name, pts = rng.choice(lst)
            if pts:
                lst = [[name, [copy.deepcopy(rng.choice(pts))]]]
    return lst


def _mutate_settings(rng, th, ob):
    th, ob = copy.deepcopy(th), copy.deepcopy(ob)
    k = rng.choice(["nfff", "tmc", "target", "n3lo", "fns", "sv", "proj", "neargrid", "neargrid", "othergrid", "othergrid",
                    "degree"])
    if k == "nfff":
        th["NfFF"] = {3: 4, 4: 3, 5: 4}[th["NfFF"]]
    elif k == "tmc":
        th["TMC"] = rng.choice([t for t in (0, 1, 2, 3) if t != th["TMC"]])
    elif k == "target":
        ob["TargetDIS"] = rng.choice([t for t in ("proton", "neutron", "isoscalar") if t != ob["TargetDIS"]])
    elif k == "n3lo":
        th["n3lo_cf_variation"] = rng.choice([-1, 0, 1])
        th["NfFF"] = {3: 4, 4: 3, 5: 4}[th["NfFF"]]
    elif k == "fns":
        th["FNS"] = rng.choice([f for f in ("ZM-VFNS", "FFNS") if f != th["FNS"]])
    elif k == "sv":
        th["FactScaleVar"] = not th.get("FactScaleVar", True)
    elif k == "neargrid":
        # a grid that differs from the first runner's only in the 7th digit of one inner node (the same
        # grid written to a file with limited precision): anything that recognises grids "up to
        # tolerance" across runners of one process computes on the wrong grid
        g = list(ob["interpolation_xgrid"])
        if len(g) < 3:
            return th, ob
        j = rng.randrange(1, len(g) - 1)
        g[j] = g[j] * (1.0 + rng.choice([1e-7, -1e-7, 3e-6]))
        ob["interpolation_xgrid"] = g
    elif k == "othergrid":
        # the same request on another interpolation grid (same first node or lower, so that the points stay inside):
        # anything memoised per process by node position or index rather than by grid is then shared wrongly
        g0 = ob["interpolation_xgrid"]
        cands = [g for g in cards.GRIDS_LOG + cards.GRIDS_LIN if g[0] <= g0[0] and list(g) != list(g0)]
        if cands:
            g = list(rng.choice(cands))
            ob["interpolation_xgrid"] = g
            ob["interpolation_is_log"] = g in [list(x) for x in cards.GRIDS_LOG]
            ob["interpolation_polynomial_degree"] = min(ob["interpolation_polynomial_degree"], len(g) - 1)
    elif k == "degree":
        d0 = ob["interpolation_polynomial_degree"]
        ob["interpolation_polynomial_degree"] = rng.choice([d for d in (1, 2, 3) if d != d0 and d < len(ob["interpolation_xgrid"])] or [d0])
    elif k == "proj":
        ob["ProjectileDIS"] = "positron" if ob.get("ProjectileDIS", "electron") == "electron" else "electron"
    return th, ob


def _list_cost(th, ob, lst, jit):
    return sum(cards.est_cost(th, ob, n, jit) * len(p) for n, p in lst)


def _ref_cost(th, ob, lst, jit):
    seen = set()
    c = 0.0
    for n, pts in lst:
        for p in pts:
            key = (n, json.dumps(p))
            if key in seen:
                continue
            seen.add(key)
            c += cards.est_cost(th, ob, n, jit) + cards.sv_cost(th, ob, jit) + 0.03
    return c


def est_sites(opkind, th, ob, scope, first):
    """Rough number of consultations per seam site an op will make (from what generation knows:
    points in scope, grid size, TMC, cross sections, whether the runner was already asked).  Only used
    to aim fault decisions at call indices that exist; wrong guesses just leave a decision unfired."""
    n_nodes = len(ob["interpolation_xgrid"])
    pto = th.get("PTODIS") if th.get("PTODIS") is not None else th["PTO"]
    tmc = th.get("TMC", 0)
    n_sf = sum(len(p) for n, p in scope if not cards.is_xs(n))
    n_xs = sum(len(p) for n, p in scope if cards.is_xs(n))
    est = {}
    if opkind == "new_runner":
        est["get_esf"] = n_sf
        est["line"] = 90 + 40 * (n_sf + n_xs)
        return est
    per_sf_esf = {0: 0, 1: 1 + n_nodes, 2: 2, 3: 1 + 2 * n_nodes}[tmc]
    est["get_esf"] = n_sf * per_sf_esf + n_xs * (3 + 3 * per_sf_esf)
    fresh = first or tmc != 0
    conv_per_esf = n_nodes * (pto + 1) * 3
    n_esf = n_sf * max(1, per_sf_esf) + n_xs * 3 * max(1, per_sf_esf)
    est["conv"] = int(n_esf * conv_per_esf * (1.0 if fresh else 0.0))
    fact = th.get("FactScaleVar", True) is not False and pto >= 1
    est["sv_fill"] = ({1: 4, 2: 12, 3: 12}.get(pto, 0) if (fact and first) else 0)
    if fact and first:
        est["conv"] += est["sv_fill"] * n_nodes * n_nodes
    if opkind == "get_result":
        est["console"] = 24
        est["clock"] = 2 + est["sv_fill"] * 2
        est["progress"] = n_sf + n_xs
    else:
        est["console"] = 0
        est["clock"] = est["sv_fill"] * 2
        est["progress"] = 0
    if pto >= 3:
        est["n3lo_memo"] = (n_sf + 3 * n_xs) * 4 if fresh else 0
    est["line"] = (50 if opkind == "get_result" else 5) + (n_sf + n_xs) * 12 \
        + int(n_esf * 45 * (pto + 1) * (1.0 if fresh else 0.05))
    return est


def gen_faults(rng, opkind, enabled, rate, est=None):
    """Fault decisions for one op (explicit site/call/do), aimed at call indices the op is
    expected to reach (est_sites)."""
    out = []
    if not enabled or opkind in ("scribble", "drop_cache", "evict_global"):
        return out
    est = est or {}
    used = set()
    n = 0
    tries = 0
    while rng.random() < rate and n < 3 and tries < 12:
        tries += 1
        do = rng.choice(enabled)
        site = FAULT_SITE[do]
        hi = est.get(site, 0)
        if hi <= 0:
            # this op is not expected to reach that site at all: aim elsewhere
            rate = max(rate, 0.85)
            continue
        n += 1
        if site in ("conv", "line"):
            # log-uniform over the expected range: early and late interrupts both matter
            call = int(math.exp(rng.random() * math.log(hi * 1.2 + 1.0))) - 1
        else:
            call = int(rng.random() * hi * 1.2)
        if (site, call) in used:
            continue
        used.add((site, call))
        f = {"site": site, "call": call, "do": do}
        if do == "clock_jump":
            f["arg"] = rng.choice([1.0, 3600.0, 86400.0 * 400])
        if do == "clock_back":
            f["arg"] = rng.choice([0.5, 3600.0, 86400.0 * 30])
        out.append(f)
    return out


def generate(run_seed, fault_config="all", jit=False, budget=4.0, max_pto=2, allow_n3lo=False,
             max_ops=12, n3lo=False, big=False, huge=False, many=False, manyq=False, meta=None):
    st = Streams(run_seed)
    big = big or manyq
    cfg, ops_rng, frng = st["config"], st["ops"], st["faults"]
    th, ob = cards.gen_settings(cfg, max_pto=1 if big else max_pto, allow_n3lo=allow_n3lo)
    if big:
        # "big" runs: many points per observable (ties and duplicates in Q2 that are not adjacent as
        # listed, many distinct cache entries) at leading order, where a point costs milliseconds —
        # the classic blind spot is a cache too large for its eviction path to run
        if th["PTO"] == 1 and cfg.random() < 0.7:
            th["PTO"] = 0
        th.pop("PTODIS", None)
        if th["FNS"] not in ("ZM-VFNS", "FFNS"):
            th["FNS"] = cfg.choice(["ZM-VFNS", "FFNS"])
        th["TMC"] = cards.wchoice(cfg, [(0, 3), (1, 3), (2, 2), (3, 2)])
        if len(ob["interpolation_xgrid"]) > 9 and th["TMC"] in (1, 3):
            th["TMC"] = 2  # many points x wide grid x integrated TMC does not fit the watchdog
        if manyq:
            th["PTO"] = 0
            th["TMC"] = cfg.choice([0, 0, 2])
    if n3lo:
        # heavy-quark N3LO: the only path through the process-global grid memo
        # (heavy.n3lo.interpolators, keyed by coefficient, nf and variation); DESIGN §2.5
        th["PTO"] = 3
        th.pop("PTODIS", None)
        th["FNS"] = cards.wchoice(cfg, [("FFNS", 7), ("ZM-VFNS", 1), ("FONLL-FFNS", 2)])
        th["NfFF"] = cfg.choice([3, 4])
        th["RenScaleVar"] = False
        th["FactScaleVar"] = False
        th["TMC"] = cards.wchoice(cfg, [(0, 6), (2, 1)])
        th["n3lo_cf_variation"] = cfg.choice([-1, 0, 0, 1])
        ob["interpolation_xgrid"] = list(cards.GRIDS_LOG[0])
        ob["interpolation_is_log"] = True
        ob["interpolation_polynomial_degree"] = cfg.randint(1, 3)
        if ob["prDIS"] == "CC":
            ob["prDIS"] = cfg.choice(["EM", "NC"])
            ob["ProjectileDIS"] = "electron"
    pools = cards.gen_pools(cfg, th, ob)
    if n3lo:
        # above the pair-production thresholds of charm and bottom, or the heavy terms vanish
        qs = [50.0, 120.0, 300.0, 1000.0, 97.0, 30.0]
        cfg.shuffle(qs)
        xsn = [0.01, 0.1, 0.05, 0.2, 0.03, 0.3]
        cfg.shuffle(xsn)
        pools = {"x": xsn[:3], "Q2": qs[:3], "y": pools["y"]}
    # --- observable list under a cost budget (history + isolated references)
    nobs = cards.wchoice(cfg, [(1, 3), (2, 4), (3, 2), (4, 1)])
    names = cards.gen_obs_names(cfg, th, ob, nobs)
    if n3lo:
        names = []
        for _ in range(cfg.randint(1, 3)):
            nm = cfg.choice(["F2_charm", "FL_charm", "F2_total", "FL_total", "F2_bottom", "F2_light", "XSHERANC_charm"])
            if nm not in names:
                names.append(nm)
    base = []
    spent = 0.0
    for name in names:
        per = cards.est_cost(th, ob, name, jit) * 2 + cards.sv_cost(th, ob, jit) + 0.03
        room = max(1, int((budget * 0.6 - spent) / max(per, 1e-6)))
        npts = min(cfg.randint(1, 5), room)
        pto_ = th.get("PTODIS") if th.get("PTODIS") is not None else th["PTO"]
        if pto_ >= 2 and th.get("FactScaleVar", True) is not False and not base:
            npts = max(npts, 2)  # the scale-variation memo is only shared if there is a second point
        if cfg.random() < 0.04:
            pts = []
        else:
            pts = cards.gen_points(cfg, pools, name, npts, th, plant=room >= 3)
        if len(pts) > 6:
            pts = pts[:6]
        spent += per * max(1, len(pts))
        base.append([name, pts])
        if spent > budget * 0.6:
            break
    if big:
        pools = cards.gen_pools(cfg, th, ob, nx=8, nq=5)
        grid = ob["interpolation_xgrid"]
        pools["x"] = list(dict.fromkeys(pools["x"] + [g for g in grid[1:-1]] + [0.21, 0.33, 0.52, 0.66, 0.81]))
        pools["x"] = [x for x in pools["x"] if x >= grid[0]][:14]
        base = []
        bnames = [n for n in cards.gen_obs_names(cfg, th, ob, 4, wild=0.0)
                  if n.split("_")[0] in ("F2", "FL", "F3") or cards.is_xs(n)][: cfg.randint(1, 2)] or ["F2_light"]
        if manyq:
            # tens of distinct virtualities in one runner (40-80 points on 34-60 distinct Q2), and usually a second
            # observable on the same kinematics so that the early ones are needed again
            lo_q = 2.0
            pools["Q2"] = [round(lo_q * 1.04 ** k, 3) for k in range(120)]
            cfg.shuffle(pools["Q2"])
        for name in bnames:
            npts = cfg.randint(9, 26 if not cards.is_xs(name) else 12)
            if th["TMC"] in (1, 3) and th["PTO"] == 1:
                npts = min(npts, 10)
            if manyq:
                npts = cfg.randint(40, 80 if not cards.is_xs(name) else 50)
            pts = cards.gen_points(cfg, pools, name, npts, th)
            # non-adjacent repeats of whole points and of Q2 values
            for _ in range(cfg.randint(1, 4)):
                pts.insert(cfg.randrange(len(pts) + 1), copy.deepcopy(cfg.choice(pts)))
            base.append([name, pts])
        if manyq and len(base) == 1 and cfg.random() < 0.7 and not cards.is_xs(base[0][0]):
            k0 = base[0][0].split("_")[0]
            twin = {"F2": "FL", "FL": "F2", "F3": "F2", "g1": "gL", "gL": "g1", "g4": "g1"}.get(k0, "F2")
            base.append([twin + ("_" + base[0][0].split("_")[1] if "_" in base[0][0] else ""), copy.deepcopy(base[0][1])])
    if huge:
        # more than 256 points in one observable, at leading order on a three-node grid
        th["PTO"] = 0
        th.pop("PTODIS", None)
        # with target-mass corrections every point adds its own shifted kinematics to whatever is memoised
        # per runner: more than 256 distinct keys (adversarial seeded change c14-adversarial-tmc-kernel-store)
        th["TMC"] = cards.wchoice(cfg, [(0, 4), (1, 3), (3, 2), (2, 1)])
        if th["FNS"] not in ("ZM-VFNS", "FFNS"):
            th["FNS"] = "ZM-VFNS"
        ob["interpolation_xgrid"] = list(cards.HUGE_GRID)
        ob["interpolation_is_log"] = cfg.choice([True, False])
        ob["interpolation_polynomial_degree"] = 1
        hname = cfg.choice(["F2_light", "F2_total", "FL_light", "F3_total", "F2", "XSHERANC" if ob["prDIS"] != "CC" else "XSHERACC"])
        base = [[hname, cards.huge_points(cfg, cfg.randint(257, 330), cards.is_xs(hname))]]
        if cfg.random() < 0.6 and not cards.is_xs(hname):
            # a second observable on the SAME kinematics (F2 and FL of one data set)
            twin = {"F2": "FL", "FL": "F2", "F3": "F2"}[hname.split("_")[0]]
            tname = twin + ("_" + hname.split("_")[1] if "_" in hname else "")
            base.append([tname, copy.deepcopy(base[0][1])])
        elif cfg.random() < 0.5:
            base.append(["FL_total", cards.huge_points(cfg, 3)])
    settings = {"S0": {"theory": th, "obs": ob}}
    runners = {"R0": ("S0", base)}
    if cfg.random() < 0.65 and not huge:
        runners["R1"] = ("S0", _variant(cfg, base, th, ob, pools))
    if cfg.random() < 0.22 and not huge:
        th1, ob1 = _mutate_settings(cfg, th, ob)
        settings["S1"] = {"theory": th1, "obs": ob1}
        pools1 = pools
        runners["R2"] = ("S1", _variant(cfg, base, th1, ob1, pools1))
    if (allow_n3lo or n3lo) and th["PTO"] >= 3 and "R2" not in runners:
        th1, ob1 = copy.deepcopy(th), copy.deepcopy(ob)
        if cfg.random() < 0.5:
            th1["NfFF"] = {3: 4, 4: 3, 5: 4}[th["NfFF"]]
            th1["n3lo_cf_variation"] = cfg.choice([-1, 0, 1])
        else:
            # same coefficient and nf, another variation of the approximate N3LO terms
            th1["n3lo_cf_variation"] = cfg.choice([v for v in (-1, 0, 1) if v != th["n3lo_cf_variation"]])
        settings["S1"] = {"theory": th1, "obs": ob1}
        runners["R2"] = ("S1", copy.deepcopy(base))

    if many and not huge and not n3lo:
        # "many-runner" runs: up to six live runners in one process (same settings with permuted / sub / super
        # lists, and up to two further settings), so that anything kept per process or per class rather than
        # per runner meets more than two or three owners
        k = 3
        while len(runners) < cfg.randint(4, 6) and k < 8:
            if cfg.random() < 0.5:
                runners[f"R{k}"] = ("S0", _variant(cfg, base, th, ob, pools))
            else:
                sname = f"S{1 + sum(1 for x in settings if x != 'S0')}"
                thm, obm = _mutate_settings(cfg, th, ob)
                settings[sname] = {"theory": thm, "obs": obm}
                runners[f"R{k}"] = (sname, _variant(cfg, base, thm, obm, pools))
            k += 1
        rk = list(runners.items())
        cfg.shuffle(rk)
        runners = dict(rk)

    # --- fault swarm
    if fault_config == "none":
        enabled = []
    elif fault_config == "transparent":
        enabled = [k for k in TRANSPARENT if frng.random() < 0.6] or [frng.choice(TRANSPARENT)]
    elif fault_config == "failing":
        enabled = [k for k in FAILING if frng.random() < 0.7] or [frng.choice(FAILING)]
    else:
        enabled = [k for k in TRANSPARENT + FAILING if frng.random() < 0.5] or [frng.choice(FAILING)]
    # evictions are the interesting transparent faults; weight them up
    weighted = []
    for k in enabled:
        weighted.extend([k] * (3 if k.startswith("evict") or k in ("interrupt_conv", "interrupt_line") else (2 if k == "interrupt_sv" else 1)))
    rate = frng.choice([0.3, 0.5, 0.8])

    # --- ops: sequential generation over an abstract state; each op attributed to a client
    nclients = cfg.randint(1, 3)
    ops = []
    created = []
    handles = []  # (op index, kind)
    runs_done = {}  # runner -> number of full computations so far
    pending = list(runners.keys())
    cost = 0.0
    hist_budget = budget * (6.0 if big else 1.0) * (40.0 if huge else 1.0)
    refc = sum(_ref_cost(settings[s]["theory"], settings[s]["obs"], l, jit) for s, l in runners.values())
    steps = 0
    while len(ops) < max_ops and steps < 60:
        steps += 1
        client = ops_rng.randrange(nclients)
        choices = []
        if pending:
            choices.append(("new_runner", 4 if not created else 1.5))
        if created:
            choices += [("get_result", 4), ("sf_get_result", 2), ("elem_get_result", 3),
                        ("drop_cache", 1), ("evict_global", 0.4)]
        if handles:
            choices.append(("scribble", 2))
        if not huge:
            # the one-shot entry point (construct + compute + drop) on a permuted / extended card
            choices.append(("run_yadism", 1.0 if created else 0.6))
        kind = cards.wchoice(ops_rng, choices)
        op = {"id": len(ops), "client": client, "op": kind}
        if kind == "run_yadism":
            s = ops_rng.choice(sorted(settings))
            th_r, ob_r = settings[s]["theory"], settings[s]["obs"]
            lst = _variant(ops_rng, base, th_r, ob_r, pools) if ops_rng.random() < 0.8 else copy.deepcopy(base)
            c = _list_cost(th_r, ob_r, lst, jit) + 0.5 * _ref_cost(th_r, ob_r, lst, jit)
            if cost + c + refc > hist_budget and any(o["op"].endswith("get_result") or o["op"] == "run_yadism" for o in ops):
                if steps > 30:
                    break
                continue
            cost += c
            op.update(settings=s, observables=lst)
            handles.append(len(ops))
        elif kind == "new_runner":
            r = pending.pop(0)
            s, lst = runners[r]
            op.update(runner=r, settings=s, observables=lst)
            created.append(r)
            runs_done[r] = 0
        elif kind in ("get_result", "sf_get_result", "elem_get_result"):
            r = ops_rng.choice(created)
            s, lst = runners[r]
            th_r, ob_r = settings[s]["theory"], settings[s]["obs"]
            op["runner"] = r
            if kind == "get_result":
                c = _list_cost(th_r, ob_r, lst, jit)
            else:
                if not lst:
                    continue
                name, pts = ops_rng.choice(lst)
                op["obs"] = name
                if kind == "sf_get_result":
                    c = _list_cost(th_r, ob_r, [[name, pts]], jit)
                else:
                    if not pts:
                        continue
                    op["idx"] = ops_rng.randrange(len(pts))
                    c = cards.est_cost(th_r, ob_r, name, jit)
            if runs_done[r] and not th_r.get("TMC", 0):
                c *= 0.1
            if cost + c + refc > hist_budget and any(o["op"].endswith("get_result") for o in ops):
                if steps > 30:
                    break
                continue
            cost += c
            runs_done[r] += 1
            handles.append(len(ops))
        elif kind == "drop_cache":
            op["runner"] = ops_rng.choice(created)
        elif kind == "scribble":
            op["handle"] = ops_rng.choice(handles)
            op["mode"] = ops_rng.choice(["values", "orders", "kin", "all"])
        est = None
        if kind == "run_yadism":
            th_r, ob_r = settings[op["settings"]]["theory"], settings[op["settings"]]["obs"]
            est = est_sites("get_result", th_r, ob_r, op["observables"], True)
            e0 = est_sites("new_runner", th_r, ob_r, op["observables"], True)
            est["get_esf"] = est.get("get_esf", 0) + e0["get_esf"]
            est["line"] = est.get("line", 0) + e0["line"]
            est["console"] = 0
        if kind in ("new_runner", "get_result", "sf_get_result", "elem_get_result"):
            s_, lst_ = runners[op["runner"]]
            if kind in ("new_runner", "get_result"):
                scope = lst_
            elif kind == "sf_get_result":
                scope = [[n, p] for n, p in lst_ if n == op["obs"]]
            else:
                scope = [[n, p[op["idx"]:op["idx"] + 1]] for n, p in lst_ if n == op["obs"]]
            first = kind != "new_runner" and runs_done.get(op["runner"], 0) <= 1
            est = est_sites(kind, settings[s_]["theory"], settings[s_]["obs"], scope, first)
        op["faults"] = gen_faults(frng, kind, weighted, rate, est)
        ops.append(op)
        if (kind.endswith("get_result") or kind == "run_yadism") and any(f["do"].startswith("interrupt") for f in op["faults"]) \
                and frng.random() < 0.7:
            # faults without workload test nothing: an interrupted request is usually followed by the
            # caller simply asking again (same request, no fault) — the state the interrupt left behind
            # is exactly what that retry meets
            retry = copy.deepcopy(op)
            retry["id"] = len(ops)
            retry["faults"] = []
            retry["retry_of"] = op["id"]
            handles.append(len(ops))
            ops.append(retry)
        if not pending and sum(1 for o in ops if o["op"].endswith("get_result") or o["op"] == "run_yadism") >= 2 \
                and ops_rng.random() < 0.12:
            break
    trace = {
        "format": 1,
        "property": PROPERTY,
        "run_seed": int(run_seed),
        "fault_config": fault_config,
        "jit": bool(jit),
        "settings": settings,
        "ops": ops,
    }
    if meta:
        trace.update(meta)
    return trace


# ------------------------------------------------------------------------------------
# execution
# ------------------------------------------------------------------------------------

def _mk_card(settings, observables):
    """Build fresh theory / observables dicts for a runner from a trace (ordered points)."""
    th = copy.deepcopy(settings["theory"])
    ob = copy.deepcopy(settings["obs"])
    obs = {}
    for name, pts in observables:
        obs[name] = [cards.point_dict(p) for p in pts]
    ob["observables"] = obs
    return th, ob


def _clear_globals():
    import yadism.coefficient_functions.heavy.n3lo as n3lo

    try:
        n3lo.interpolators.clear()
    except AttributeError:
        pass
    try:
        import LeProHQ.utils as lu

        lu.interpolator_2d.clear()
    except Exception:  # noqa: BLE001
        pass


_MODULE_STATE = None


def _snapshot_module_state():
    """Import-time contents of every module-level dict / list / set of the yadism package (and the lru_caches
    defined there).  Taken once per worker, before the first run executes anything."""
    import importlib
    import pkgutil
    import sys

    import yadism

    for m in pkgutil.walk_packages(yadism.__path__, "yadism."):
        try:
            importlib.import_module(m.name)
        except BaseException:  # noqa: BLE001 - e.g. the adani API mismatch of the asy modules
            pass
    state = []
    for name, mod in sorted(sys.modules.items()):
        if not (name == "yadism" or name.startswith("yadism.")) or mod is None or name == "yadism.log":
            continue
        for attr, val in sorted(vars(mod).items()):
            if attr.startswith("__"):
                continue
            if type(val) in (dict, list, set):
                state.append((val, type(val)(val)))
    return state


def _reset_process_state():
    """Canonical start of a run and of every isolated reference: the known process-global memos are cleared and
    every module-level container of the yadism package is put back to its import-time contents, every lru_cache
    defined there is emptied.  On a tree where the property holds this cannot matter (they are caches or
    constant tables); on a tree that keeps a memo at module level which the history has filled (seeded change
    c14-tmc-weights-memo-ignores-grid: convolution weights keyed by node position, not by grid) it makes the
    reference what it claims to be - the request in an otherwise empty process."""
    import sys

    global _MODULE_STATE
    _clear_globals()
    if _MODULE_STATE is None:
        _MODULE_STATE = _snapshot_module_state()
        return
    for live, orig in _MODULE_STATE:
        if isinstance(live, dict):
            if live != orig or len(live) != len(orig):
                live.clear()
                live.update(orig)
        elif isinstance(live, list):
            if len(live) != len(orig) or any(a is not b for a, b in zip(live, orig)):
                live[:] = orig
        else:
            if live != orig:
                live.clear()
                live.update(orig)
    for name, mod in list(sys.modules.items()):
        if (name == "yadism" or name.startswith("yadism.")) and mod is not None:
            for val in list(vars(mod).values()):
                cc = getattr(val, "cache_clear", None)
                if callable(cc) and getattr(val, "__module__", "").startswith("yadism"):
                    try:
                        cc()
                    except Exception:  # noqa: BLE001
                        pass


def _decoy_runner():
    """Part of the canonical history of a reference: after the known process-global memos are cleared, a
    runner with entirely different settings (3-node linear grid, LO, EM, another target) is *constructed* and
    dropped.  On a tree where the property holds this cannot matter; on a tree that keeps some "last used"
    object at process level (an interpolator, a coupling table, a registry) it displaces that object, so that the
    reference is not contaminated by the very history it is meant to judge (seeded change
    c20-recycled-interpolator-allclose made this necessary: it was invisible to C14 without it)."""
    import yadism

    th = cards.base_theory()
    th.update(PTO=0, FNS="ZM-VFNS", TMC=0, RenScaleVar=False, FactScaleVar=False, MP=1.1, mc=1.3, mb=4.0)
    ob = cards.base_obs()
    ob.update(interpolation_xgrid=[0.3, 0.6, 1.0], interpolation_polynomial_degree=1, interpolation_is_log=False,
              prDIS="EM", TargetDIS={"Z": 2.0, "A": 5.0}, ProjectileDIS="positron", PolarizationDIS=0.25,
              observables={"FL_light": [{"x": 0.5, "Q2": 7.0}]})
    try:
        yadism.Runner(th, ob)
    except Exception:  # noqa: BLE001 - the decoy is best effort
        pass


def _exc_name(e):
    return type(e).__name__


class RefTable:
    """Reference model: isolated single-point canonical histories (DESIGN §3.2)."""

    def __init__(self, settings, sched):
        self.settings = settings
        self.sched = sched
        self.table = {}
        self.computed = 0

    def key(self, s, name, point, flavour):
        return (s, name, json.dumps(point) if point is not None else None, flavour)

    def get(self, s, name, point, flavour):
        k = self.key(s, name, point, flavour)
        if k not in self.table:
            self.table[k] = self._compute(s, name, point, flavour)
            self.computed += 1
        return self.table[k]

    def _compute(self, s, name, point, flavour):
        import yadism

        self.sched.quiet += 1
        try:
            _reset_process_state()
            _decoy_runner()
            obs = [] if name is None else [[name, [point]]]
            th, ob = _mk_card(self.settings[s], obs)
            try:
                r = yadism.Runner(th, ob)
            except Exception as e:  # noqa: BLE001
                return ("raise_construct", _exc_name(e))
            if name is None:
                return ("ok", None)
            try:
                if flavour == "runner":
                    res = r.get_result()[name][0]
                else:
                    res = r.observables[name].elements[0].get_result()
            except Exception as e:  # noqa: BLE001
                return ("raise_run", _exc_name(e))
            return ("ok", canon.result_canon(res))
        finally:
            self.sched.quiet -= 1


def _scribble_result(res, mode):
    """The caller overwrites an object it was handed back."""
    import numpy as np

    if res is None:
        return
    if mode in ("values", "all"):
        for o in list(res.orders):
            ve = res.orders[o]
            try:
                ve[0][...] = 777.0
                ve[1][...] = -1.0
            except (TypeError, ValueError):
                pass
    if mode in ("orders", "all"):
        ks = list(res.orders)
        if ks:
            del res.orders[ks[0]]
        res.orders[(9, 9, 9, 9)] = (np.ones((2, 2)), np.ones((2, 2)))
    if mode in ("kin", "all"):
        res.x = 0.123456
        res.Q2 = -5.0


class Execution:
    def __init__(self, trace, collect_states=True):
        self.trace = trace
        self.sched = Sched()
        self.clock = SimClock(self.sched)
        self.seams = Seams(self.sched, self.clock)
        self.runners = {}
        self.handles = {}  # op index -> dict(obj, kind, parts=[(label, result_obj, digest)], scribbled)
        self.requests = []  # to be judged against references
        self.violations = []
        self.events = []
        self.probes = self.seams.probes
        self.states = set()
        self.transitions = set()
        self.collect_states = collect_states
        self.interrupted_ops = 0
        self.first_interrupt_op = None
        self.skipped_ops = 0
        self.refs = None

    # -- event log (never draws, never reads a clock)
    def log(self, *items):
        self.events.append(items)

    def violation(self, oracle, at_op, what, detail):
        self.violations.append({"oracle": oracle, "at_op": at_op,
                                "op": self.trace["ops"][at_op]["op"] if at_op is not None and at_op >= 0 else None,
                                "what": what, "detail": detail})

    # -- abstract state signature (white-box probe only; degrades to constants)
    def signature(self):
        sig = []
        for name in sorted(self.runners):
            r = self.runners[name]["runner"]
            if r is None:
                sig.append((name, "absent"))
                continue
            try:
                obs_sig = []
                for on in sorted(r.observables):
                    o = r.observables[on]
                    cache = getattr(o, "cache", None)
                    ck = len(cache) if cache is not None else -1
                    comp = 0
                    for el in getattr(o, "elements", []):
                        if getattr(el, "_computed", False):
                            comp += 1
                    obs_sig.append((on, ck, comp))
                svk = tuple(sorted(str(k) for k in r.configs.managers["sv_manager"].operators))
                sig.append((name, tuple(obs_sig), svk))
            except Exception:  # noqa: BLE001
                sig.append((name, "opaque"))
        try:
            import yadism.coefficient_functions.heavy.n3lo as n3lo

            sig.append(tuple(sorted(n3lo.interpolators)))
        except Exception:  # noqa: BLE001
            pass
        return hashlib.sha256(repr(sig).encode()).hexdigest()[:16]

    # -- ops
    def run(self):
        import yadism  # noqa: F401

        self.seams.install()
        try:
            _reset_process_state()
            self.refs = RefTable(self.trace["settings"], self.sched)
            prev_sig = self.signature() if self.collect_states else None
            for i, op in enumerate(self.trace["ops"]):
                self.sched.begin_op(i, op.get("faults"))
                nfired0 = len(self.sched.fired)
                tracing = any(f.get("site") == "line" for f in op.get("faults") or [])
                try:
                    if tracing:
                        self.seams.lines.start()
                    self.do_op(i, op)
                finally:
                    if tracing:
                        self.seams.lines.stop()
                    self.sched.end_op()
                fired_now = self.sched.fired[nfired0:]
                self.check_held(i)
                if self.collect_states:
                    sig = self.signature()
                    self.states.add(sig)
                    self.transitions.add((prev_sig, op["op"], tuple(sorted(f[3] for f in fired_now)), sig))
                    prev_sig = sig
                if self.violations:
                    break
            if not self.violations:
                self.judge()
        finally:
            self.seams.remove()
        return self.report()

    def do_op(self, i, op):
        import yadism

        kind = op["op"]
        if kind == "new_runner":
            s = op["settings"]
            th, ob = _mk_card(self.trace["settings"][s], op["observables"])
            try:
                r = yadism.Runner(th, ob)
                r.console.file = FaultyStream(self.sched)
                self.runners[op["runner"]] = {"runner": r, "settings": s, "observables": op["observables"], "cards": (th, ob)}
                self.log(i, kind, op["runner"], "ok")
            except SimInterrupt:
                self.runners[op["runner"]] = {"runner": None, "settings": s, "observables": op["observables"]}
                self.interrupted_ops += 1
                self.first_interrupt_op = i if self.first_interrupt_op is None else self.first_interrupt_op
                self.log(i, kind, op["runner"], "interrupted")
                return
            except Exception as e:  # noqa: BLE001
                self.runners[op["runner"]] = {"runner": None, "settings": s, "observables": op["observables"]}
                self.requests.append({"op": i, "kind": "construct", "settings": s,
                                      "observables": op["observables"], "outcome": ("raise", _exc_name(e))})
                self.log(i, kind, op["runner"], "raise", _exc_name(e))
                self.probes["natural_reject"] += 1
                return
            self.requests.append({"op": i, "kind": "construct", "settings": s,
                                  "observables": op["observables"], "outcome": ("ok",)})
            return
        if kind == "evict_global":
            _clear_globals()
            self.log(i, kind)
            return
        if kind == "run_yadism":
            self._run_yadism(i, op)
            return
        if kind == "scribble":
            h = self.handles.get(op["handle"])
            if h is None:
                self.skipped_ops += 1
                self.log(i, kind, "skipped")
                return
            for _, res, _ in h["parts"]:
                _scribble_result(res, op["mode"])
            h["scribbled"] = True
            self.probes["scribble"] += 1
            self.log(i, kind, op["handle"], op["mode"])
            return
        rec = self.runners.get(op["runner"])
        if rec is None or rec["runner"] is None:
            self.skipped_ops += 1
            self.log(i, kind, "skipped")
            return
        r = rec["runner"]
        if kind == "drop_cache":
            r.drop_cache()
            self.log(i, kind, op["runner"])
            return
        s = rec["settings"]
        lst = rec["observables"]
        nfired0 = len(self.sched.fired)
        rec["requests"] = rec.get("requests", 0) + 1
        if rec["requests"] > 1:
            self.probes["second_get_result"] += 1
        try:
            if kind == "get_result":
                out = r.get_result()
                parts = []
                for name, pts in lst:
                    got = out.get(name) if hasattr(out, "get") else None
                    if got is None or len(got) != len(pts):
                        self.violation("result-shape", i, [name], f"observable {name}: got {None if got is None else len(got)} results for {len(pts)} points")
                        return
                    for j, p in enumerate(pts):
                        parts.append(((name, j, p, "runner"), got[j], None))
                obj = out
            elif kind == "sf_get_result":
                name = op["obs"]
                pts = dict((n, p) for n, p in lst)[name]
                got = r.observables[name].get_result()
                if len(got) != len(pts):
                    self.violation("result-shape", i, [name], f"{len(got)} results for {len(pts)} points")
                    return
                parts = [((name, j, p, "elem"), got[j], None) for j, p in enumerate(pts)]
                obj = got
            else:
                name = op["obs"]
                pts = dict((n, p) for n, p in lst)[name]
                j = op["idx"]
                got = r.observables[name].elements[j].get_result()
                parts = [((name, j, pts[j], "elem"), got, None)]
                obj = got
        except SimInterrupt:
            self.interrupted_ops += 1
            self.first_interrupt_op = i if self.first_interrupt_op is None else self.first_interrupt_op
            self.probes["interrupted_request"] += 1
            self.log(i, kind, "interrupted")
            self._probe_partial(r)
            return
        except Exception as e:  # noqa: BLE001
            fired_now = self.sched.fired[nfired0:]
            if isinstance(e, OSError) and any(f[3] == "interrupt_console" for f in fired_now):
                self.interrupted_ops += 1
                self.first_interrupt_op = i if self.first_interrupt_op is None else self.first_interrupt_op
                self.probes["interrupted_request"] += 1
                self.log(i, kind, "console-interrupted")
                return
            scope = self._scope(kind, op, lst)
            self.requests.append({"op": i, "kind": "raised", "settings": s, "scope": scope,
                                  "flavour": "runner" if kind == "get_result" else "elem",
                                  "exc": _exc_name(e)})
            self.log(i, kind, "raise", _exc_name(e))
            self.probes["natural_reject"] += 1
            return
        parts2 = []
        for label, res, _ in parts:
            c = canon.result_canon(res)
            d = canon.result_digest(res)
            parts2.append((label, res, d))
            self.requests.append({"op": i, "kind": "returned", "settings": s, "label": label, "canon": c})
            self.log(i, kind, label[0], label[1], d)
        self.handles[op.get("id", i)] = {"obj": obj, "parts": parts2, "scribbled": False}
        if any(f[3].startswith("evict") for f in self.sched.fired[nfired0:]):
            self.probes["evict_inside_request"] += 1

    def _run_yadism(self, i, op):
        """The one-shot entry point: a runner of its own, constructed, asked once and dropped."""
        import yadism

        s = op["settings"]
        lst = op["observables"]
        th, ob = _mk_card(self.trace["settings"][s], lst)
        self.probes["run_yadism"] += 1
        try:
            out = yadism.run_yadism(th, ob)
        except SimInterrupt:
            self.interrupted_ops += 1
            self.first_interrupt_op = i if self.first_interrupt_op is None else self.first_interrupt_op
            self.probes["interrupted_request"] += 1
            self.log(i, "run_yadism", "interrupted")
            return
        except Exception as e:  # noqa: BLE001
            self.requests.append({"op": i, "kind": "oneshot_raised", "settings": s, "observables": lst,
                                  "exc": _exc_name(e)})
            self.log(i, "run_yadism", "raise", _exc_name(e))
            self.probes["natural_reject"] += 1
            return
        parts = []
        for name, pts in lst:
            got = out.get(name) if hasattr(out, "get") else None
            if got is None or len(got) != len(pts):
                self.violation("result-shape", i, [name],
                               f"observable {name}: got {None if got is None else len(got)} results for {len(pts)} points")
                return
            for j, p in enumerate(pts):
                parts.append(((name, j, p, "runner"), got[j], None))
        parts2 = []
        for label, res, _ in parts:
            c = canon.result_canon(res)
            d = canon.result_digest(res)
            parts2.append((label, res, d))
            self.requests.append({"op": i, "kind": "returned", "settings": s, "label": label, "canon": c})
            self.log(i, "run_yadism", label[0], label[1], d)
        self.handles[op.get("id", i)] = {"obj": out, "parts": parts2, "scribbled": False}

    def _probe_partial(self, r):
        try:
            for o in r.observables.values():
                for el in getattr(o, "elements", []):
                    if getattr(el, "_computed", None) is False and getattr(el, "res", None) is not None \
                            and len(el.res.orders) > 0:
                        self.probes["interrupt_with_partial_accumulation"] += 1
                        return
                cache = getattr(o, "cache", {}) or {}
                for el in cache.values():
                    if getattr(el, "_computed", None) is False and getattr(el, "res", None) is not None \
                            and len(el.res.orders) > 0:
                        self.probes["interrupt_with_partial_accumulation"] += 1
                        return
        except Exception:  # noqa: BLE001
            pass

    @staticmethod
    def _scope(kind, op, lst):
        if kind == "get_result":
            return [(n, p) for n, pts in lst for p in pts]
        pts = dict((n, p) for n, p in lst)[op["obs"]]
        if kind == "sf_get_result":
            return [(op["obs"], p) for p in pts]
        return [(op["obs"], pts[op["idx"]])]

    def check_held(self, i):
        """Cross-invariant: the library never reaches back into what it has handed out."""
        for hi, h in self.handles.items():
            if h["scribbled"]:
                continue
            for label, res, d in h["parts"]:
                if canon.result_digest(res) != d:
                    self.violation("held-result-mutated", i, [label[0], label[1]],
                                   f"result returned by op {hi} changed after op {i}")
                    return

    # -- judge the recorded history against the reference model
    def judge(self):
        for rq in self.requests:
            i = rq["op"]
            s = rq["settings"]
            if rq["kind"] == "construct":
                base = self.refs.get(s, None, None, "runner")
                pts = [(n, p) for n, pl in rq["observables"] for p in pl]
                names = [n for n, _ in rq["observables"]]
                if rq["outcome"][0] == "raise":
                    e = rq["outcome"][1]
                    ok = base == ("raise_construct", e)
                    if not ok:
                        for n, p in pts:
                            if self.refs.get(s, n, p, "runner") == ("raise_construct", e):
                                ok = True
                                break
                    if not ok:
                        # an observable with no point can still be rejected for its name
                        for n, pl in rq["observables"]:
                            if not pl and self._name_ref(s, n) == ("raise_construct", e):
                                ok = True
                                break
                    if not ok:
                        self.violation("construct-rejected", i, names,
                                       f"construction raised {e} but no single point / the bare settings do so in isolation")
                        return
                else:
                    if base[0] != "ok":
                        self.violation("construct-accepted", i, names, f"bare settings reference raises {base}")
                        return
                    for n, p in pts:
                        ref = self.refs.get(s, n, p, "runner")
                        if ref[0] == "raise_construct":
                            self.violation("construct-accepted", i, [n, p],
                                           f"construction succeeded but the isolated point is rejected with {ref[1]}")
                            return
            elif rq["kind"] == "returned":
                name, j, p, flavour = rq["label"]
                ref = self.refs.get(s, name, p, flavour)
                if ref[0] != "ok":
                    self.violation("rejection-became-result", i, [name, j, p],
                                   f"history returned a result, isolated request raises {ref[1]} ({ref[0]})")
                    return
                if ref[1] != rq["canon"]:
                    self.violation("result-differs", i, [name, j, p],
                                   canon.describe_diff(rq["canon"], ref[1]))
                    return
            elif rq["kind"] == "oneshot_raised":
                # run_yadism raised: the bare settings, a point (at construction or at run time) or a
                # point-less observable name must be rejected in isolation as well
                e = rq["exc"]
                ok = self.refs.get(s, None, None, "runner")[0] != "ok"
                if not ok:
                    for n, pl in rq["observables"]:
                        if not pl and self._name_ref(s, n)[0] != "ok":
                            ok = True
                        for p in pl:
                            if self.refs.get(s, n, p, "runner")[0] != "ok":
                                ok = True
                                break
                        if ok:
                            break
                if not ok and self.first_interrupt_op is not None and i > self.first_interrupt_op:
                    self.probes["raised_after_earlier_interrupt"] += 1
                    continue
                if not ok:
                    self.violation("result-became-rejection", i, [n for n, _ in rq["observables"]],
                                   f"run_yadism raised {e}; the settings and every isolated point are accepted")
                    return
            elif rq["kind"] == "raised":
                e = rq["exc"]
                types = set()
                for n, p in rq["scope"]:
                    ref = self.refs.get(s, n, p, rq["flavour"])
                    if ref[0] == "raise_run":
                        types.add(ref[1])
                if not types and self.first_interrupt_op is not None and i > self.first_interrupt_op:
                    # A request that *raises* (loudly) after an earlier request of the run was aborted by an
                    # injected interrupt is counted, not judged: the property speaks about the operators that
                    # are returned, it does not promise that a runner stays usable after ^C.  (Found the hard
                    # way: thorough run 7523 of VERIF_SEED=0 — an interrupt landing between the end of the
                    # `with Progress(...)` body and the implicit __exit__ call, a gap CPython leaves in every
                    # `with` statement, keeps rich's live display registered and every later get_result of that
                    # runner raises LiveError.)  Wrong *results* after an interrupt are judged as always.
                    self.probes["raised_after_earlier_interrupt"] += 1
                    continue
                if not types:
                    self.violation("result-became-rejection", i, [rq["scope"][0][0] if rq["scope"] else None],
                                   f"request raised {e}; every isolated point returns a result")
                    return
                if e not in types:
                    # counted, not judged: the property speaks about returned operators, and both the
                    # history and the isolated request reject; which exception class is used is not promised
                    self.probes["rejected_with_other_exception_type"] += 1

    def _name_ref(self, s, n):
        # reference for an observable name with an empty point list
        import yadism

        k = (s, n, "<empty>", "runner")
        if k not in self.refs.table:
            self.sched.quiet += 1
            try:
                th, ob = _mk_card(self.trace["settings"][s], [[n, []]])
                try:
                    yadism.Runner(th, ob)
                    self.refs.table[k] = ("ok", None)
                except Exception as e:  # noqa: BLE001
                    self.refs.table[k] = ("raise_construct", _exc_name(e))
            finally:
                self.sched.quiet -= 1
        return self.refs.table[k]

    def report(self):
        h = hashlib.sha256()
        for ev in self.events:
            h.update(repr(ev).encode())
            h.update(b"\n")
        for k in sorted(self.refs.table if self.refs else {}, key=repr):
            h.update(repr((k, self.refs.table[k])).encode())
        h.update(repr(self.sched.fired).encode())
        h.update(repr([(v["oracle"], v["at_op"]) for v in self.violations]).encode())
        fired = {}
        for f in self.sched.fired:
            fired[f[3]] = fired.get(f[3], 0) + 1
        nontrivial = bool(self.sched.fired) or any(
            self.probes.get(k, 0) for k in ("sf_cache_hit", "scribble", "interrupted_request"))
        return {
            "digest": h.hexdigest(),
            "violations": self.violations,
            "fired": fired,
            "unfired": len(self.sched.unfired),
            "steps": self.sched.steps,
            "site_totals": dict(self.sched.site_totals),
            "probes": dict(self.probes),
            "states": sorted(self.states),
            "transitions": len(self.transitions),
            "transition_keys": sorted(hashlib.sha256(repr(t).encode()).hexdigest()[:12] for t in self.transitions),
            "sim_seconds": self.clock.covered(),
            "requests": len(self.requests),
            "returned": sum(1 for r in self.requests if r["kind"] == "returned"),
            "rejected": sum(1 for r in self.requests if r["kind"] == "raised" or (r["kind"] == "construct" and r["outcome"][0] == "raise")),
            "interrupted": self.interrupted_ops,
            "skipped": self.skipped_ops,
            "refs": self.refs.computed if self.refs else 0,
            "nontrivial": nontrivial,
            "ops": len(self.trace["ops"]),
        }


def execute(trace, collect_states=True):
    return Execution(trace, collect_states).run()


def violation_class(v):
    return (v["oracle"], v.get("op"))


# ------------------------------------------------------------------------------------
# shrinking: candidate simplifications, most aggressive first (DESIGN §2.7)
# ------------------------------------------------------------------------------------

def normalise(trace):
    """Make a trace generable again after an edit: drop ops that refer to nothing."""
    t = trace
    created = set()
    handles = set()
    ops = []
    for op in t["ops"]:
        k = op["op"]
        if k == "new_runner":
            if op["runner"] in created:
                continue
            created.add(op["runner"])
        elif k == "scribble":
            if op["handle"] not in handles:
                continue
        elif k == "evict_global":
            pass
        elif k == "run_yadism":
            handles.add(op["id"])
        else:
            if op["runner"] not in created:
                continue
            if k in ("sf_get_result", "elem_get_result"):
                lst = None
                for o in ops:
                    if o["op"] == "new_runner" and o["runner"] == op["runner"]:
                        lst = dict((n, p) for n, p in o["observables"])
                if lst is None or op["obs"] not in lst:
                    continue
                if k == "elem_get_result" and not (0 <= op["idx"] < len(lst[op["obs"]])):
                    continue
            if k.endswith("get_result"):
                handles.add(op["id"])
        ops.append(op)
    t = dict(t)
    t["ops"] = ops
    used = {o["settings"] for o in ops if o["op"] in ("new_runner", "run_yadism")}
    t["settings"] = {k: v for k, v in t["settings"].items() if k in used}
    return t


def candidates(trace):
    ops = trace["ops"]
    n = len(ops)
    # 1. drop chunks of ops (ddmin style: halves, quarters, singles)
    size = max(1, n // 2)
    while size >= 1:
        for start in range(0, n, size):
            t = copy.deepcopy(trace)
            del t["ops"][start:start + size]
            yield f"drop ops[{start}:{start + size}]", normalise(t)
        if size == 1:
            break
        size //= 2
    # 2. drop fault decisions
    for i, op in enumerate(ops):
        for j in range(len(op.get("faults", []))):
            t = copy.deepcopy(trace)
            del t["ops"][i]["faults"][j]
            yield f"drop fault {i}.{j}", t
    # 3. fewer observables / points per runner
    for i, op in enumerate(ops):
        if op["op"] not in ("new_runner", "run_yadism"):
            continue
        lst = op["observables"]
        if len(lst) > 1:
            for j in range(len(lst)):
                t = copy.deepcopy(trace)
                del t["ops"][i]["observables"][j]
                yield f"drop observable {i}.{j}", normalise(t)
        for j, (name, pts) in enumerate(lst):
            if len(pts) > 1:
                for k in range(len(pts)):
                    t = copy.deepcopy(trace)
                    del t["ops"][i]["observables"][j][1][k]
                    # shift element indices of ops on that runner / observable
                    keep = []
                    for o in t["ops"]:
                        if o["op"] == "elem_get_result" and o["runner"] == op.get("runner") and o["obs"] == name:
                            if o["idx"] == k:
                                continue
                            if o["idx"] > k:
                                o["idx"] -= 1
                        keep.append(o)
                    t["ops"] = keep
                    yield f"drop point {i}.{j}.{k}", normalise(t)
    # 4. simpler settings
    for s, st in trace["settings"].items():
        th, ob = st["theory"], st["obs"]
        simpler = []
        pto = th.get("PTODIS") if th.get("PTODIS") is not None else th["PTO"]
        if pto > 0:
            simpler.append(("theory", {"PTO": pto - 1, "PTODIS": pto - 1}))
        if th.get("TMC", 0):
            simpler.append(("theory", {"TMC": 0}))
            if th["TMC"] != 2:
                simpler.append(("theory", {"TMC": 2}))
        if th.get("FactScaleVar", True) or th.get("RenScaleVar", True):
            simpler.append(("theory", {"FactScaleVar": False, "RenScaleVar": False}))
        if th["FNS"] != "ZM-VFNS":
            simpler.append(("theory", {"FNS": "ZM-VFNS"}))
        if ob["TargetDIS"] != "proton":
            simpler.append(("obs", {"TargetDIS": "proton"}))
        if ob["prDIS"] != "EM":
            simpler.append(("obs", {"prDIS": "EM", "ProjectileDIS": "electron"}))
        if len(ob["interpolation_xgrid"]) > 5:
            simpler.append(("obs", {"interpolation_xgrid": list(cards.GRIDS_LOG[0]), "interpolation_is_log": True,
                                    "interpolation_polynomial_degree": min(ob["interpolation_polynomial_degree"], 3)}))
        if ob["interpolation_polynomial_degree"] > 1:
            simpler.append(("obs", {"interpolation_polynomial_degree": 1}))
        for which, upd in simpler:
            t = copy.deepcopy(trace)
            t["settings"][s][which].update(upd)
            yield f"simplify {s} {upd}", t
    # 5. plain observable spellings / kinds
    for i, op in enumerate(ops):
        if op["op"] not in ("new_runner", "run_yadism"):
            continue
        for j, (name, pts) in enumerate(op["observables"]):
            if name != "F2_light" and not cards.is_xs(name):
                t = copy.deepcopy(trace)
                t["ops"][i]["observables"][j][0] = "F2_light"
                if any(n == "F2_light" for n, _ in op["observables"]):
                    continue
                for o in t["ops"]:
                    if "runner" in op and o.get("runner") == op["runner"] and o.get("obs") == name:
                        o["obs"] = "F2_light"
                yield f"rename {name} -> F2_light", t
