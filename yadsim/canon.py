"""Canonical forms and digests of yadism result objects (black-box: public attributes only)."""

import hashlib
import math
import struct

import numpy as np


def _num(v):
    """Canonical text of a scalar: type-insensitive between int/float/np scalars, exact."""
    if v is None:
        return "None"
    if isinstance(v, (bool, np.bool_)):
        return "b" + str(bool(v))
    if isinstance(v, (int, np.integer)):
        return "f" + struct.pack(">d", float(v)).hex()
    if isinstance(v, (float, np.floating)):
        f = float(v)
        if math.isnan(f):
            return "fnan"
        return "f" + struct.pack(">d", f).hex()
    if isinstance(v, str):
        return "s" + v
    return "?" + type(v).__name__ + repr(v)


def arr_bytes(a):
    """shape + raw float64 bytes; NaN payloads normalised."""
    a = np.asarray(a)
    if a.dtype != np.float64:
        try:
            a = a.astype(np.float64)
        except (TypeError, ValueError):
            return b"?" + repr(a).encode()
    a = np.ascontiguousarray(a)
    if np.isnan(a).any():
        a = a.copy()
        a[np.isnan(a)] = np.nan
    return str(a.shape).encode() + b":" + str(a.dtype).encode() + b":" + a.tobytes()


def result_canon(res):
    """Canonical nested tuple of an ESFResult / EXSResult (by value, exact bits)."""
    if res is None:
        return ("None",)
    cls = type(res).__name__
    kin = [("x", _num(getattr(res, "x", "<missing>"))), ("Q2", _num(getattr(res, "Q2", "<missing>")))]
    if hasattr(res, "y"):
        kin.append(("y", _num(res.y)))
    kin.append(("nf", _num(getattr(res, "nf", None))))
    orders = []
    for o, ve in res.orders.items():
        v, e = ve[0], ve[1]
        orders.append(
            (
                tuple(int(i) for i in o),
                hashlib.sha256(arr_bytes(v)).hexdigest(),
                hashlib.sha256(arr_bytes(e)).hexdigest(),
            )
        )
    # order keys are compared as a mapping key → (values, errors): the insertion sequence of
    # the dict is not part of what the properties promise
    orders.sort(key=lambda t: t[0])
    return (cls, tuple(kin), tuple(orders))


def result_digest(res):
    return hashlib.sha256(repr(result_canon(res)).encode()).hexdigest()[:32]


def results_digest(lst):
    if lst is None:
        return "None"
    return hashlib.sha256(
        "|".join(result_digest(r) for r in lst).encode()
    ).hexdigest()[:32]


def describe_diff(got, ref):
    """Human readable first difference between two result canons."""
    if got == ref:
        return None
    if got[0] != ref[0]:
        return f"class {got[0]} != {ref[0]}"
    if len(got) < 3 or len(ref) < 3:
        return f"{got} != {ref}"
    if got[1] != ref[1]:
        return f"kinematics {got[1]} != {ref[1]}"
    go = [o[0] for o in got[2]]
    ro = [o[0] for o in ref[2]]
    if go != ro:
        return f"order keys {go} != {ro}"
    for a, b in zip(got[2], ref[2]):
        if a[1] != b[1]:
            return f"values differ at order {a[0]}"
        if a[2] != b[2]:
            return f"errors differ at order {a[0]}"
    return "differ"


def plain(obj):
    """Normalise containers to plain python for value comparison (metadata, cards)."""
    if isinstance(obj, dict):
        return {str(k): plain(v) for k, v in obj.items()}
    if isinstance(obj, (list, tuple)):
        return [plain(v) for v in obj]
    if isinstance(obj, np.ndarray):
        return [plain(v) for v in obj.tolist()]
    if isinstance(obj, (np.bool_,)):
        return bool(obj)
    if isinstance(obj, np.integer):
        return int(obj)
    if isinstance(obj, np.floating):
        return float(obj)
    return obj


def plain_equal(a, b):
    """Deep equality on plain() forms with NaN == NaN, int/float value-equal, ±0 distinct."""
    a, b = plain(a), plain(b)
    return _peq(a, b)


def _peq(a, b):
    if isinstance(a, dict) and isinstance(b, dict):
        if list(a.keys()) != list(b.keys()) and set(a.keys()) != set(b.keys()):
            return False
        return all(_peq(a[k], b[k]) for k in a)
    if isinstance(a, list) and isinstance(b, list):
        return len(a) == len(b) and all(_peq(x, y) for x, y in zip(a, b))
    if isinstance(a, bool) or isinstance(b, bool):
        return type(a) is type(b) and a == b
    if isinstance(a, (int, float)) and isinstance(b, (int, float)):
        fa, fb = float(a), float(b)
        if math.isnan(fa) or math.isnan(fb):
            return math.isnan(fa) and math.isnan(fb)
        return struct.pack(">d", fa) == struct.pack(">d", fb)
    return type(a) is type(b) and a == b
