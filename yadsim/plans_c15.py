"""Plan for C15."""

from .plans import _common_evidence, _scale, FAULT_CONFIGS


def plan(tier):
    quick = tier == "quick"

    def params(i, jit):
        p = {"fault_config": FAULT_CONFIGS[i % 4], "max_ops": 12}
        if not quick and i % 3 == 0:
            p.update(max_ops=18, max_faults=2)  # longer histories, up to two faults per op
        return p

    def evidence(agg, det, tier, seed, wall, t_main, n_new, replays, unprocessed):
        return _common_evidence(
            "C15", "fault_enumeration", agg, det, tier, seed, wall, t_main, n_new, replays, unprocessed,
            rule="one run = one seeded history over 1–3 real runner-produced outputs (mixed structure functions and "
                 "cross sections, several order keys, empty and None observables) on a real scratch directory behind "
                 "the fault-injecting raw file layer: ≤12 ops among dump_tar, dump_yaml_file, dump_yaml_stream, "
                 "load_tar, load_yaml_file, load_yaml_stream, rename, overwrite, re-dump of loaded objects in either "
                 "format, scribble, set_none, crash+restart, then fault-free dump+load on used paths (liveness). "
                 "Faults at explicit raw-I/O call indices: open failures, write errors, torn writes, short writes, "
                 "read errors, short reads, mkdir failures, process crash. Model: path → absent | acked(snapshot) | "
                 "torn; every load of an acked path must return a bit-identical snapshot (kinematics, order keys, "
                 "values, errors, grid, metadata, cards, toy-PDF prediction) or — only if a failing fault fired in that "
                 "op — raise. non-trivial = a fault fired, or a loaded object was re-dumped, or a rename/scribble/"
                 "set_none/crash happened, or an empty observable was present; distinct = distinct sha256 of "
                 "(output cards, ops, faults). Thorough tier adds the enumerated part: for short base histories "
                 "(dump, load, overwrite or cross-format re-dump, loads, fault-free dump+load) every raw I/O call index "
                 "of every dump/load op × every applicable fault kind is executed once (extra.enum_*); each such case "
                 "is distinct by construction and non-trivial if its fault fired.",
            assumptions=[
                "cards contain only what a YAML run card can contain",
                "no power-loss semantics (lost un-fsynced data, reordered metadata): yadism never fsyncs and the property "
                "does not promise durability across power loss; a crash keeps what had been written",
                "loads of a path left torn by a failed/crashed dump are counted, not judged (no atomic-write claim)",
                "histories are sampled; in the thorough tier the single-fault space of every dump/load op of the "
                "enumerated histories is exhausted",
            ],
            extra_cov={})

    return {
        "n_runs": _scale(4800 if quick else 100000),
        "jit_modes": [False],
        "params": params,
        "watchdog": 300,
        "det_sample": 16 if quick else max(16, _scale(300)),
        "det_rounds": [(12345, 2)] if quick else [(12345, 1), (999, 16)],
        "wall_cap": 900 if quick else 3 * 3600,
        "evidence": evidence,
        # thorough: exhaustive single-fault enumeration (every raw I/O call index × every applicable
        # fault kind of every dump/load op) over short sampled histories
        "enum_runs": 0 if quick else _scale(240),
        "enum_max_cases": 600,
        "enum_watchdog": 3600,
        "enum_wall_cap": 3 * 3600,
    }
