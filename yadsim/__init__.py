"""yadsim — deterministic simulation with fault injection for NNPDF/yadism.

See /verif/DESIGN.md.  Nothing in this package draws from a global PRNG, reads a
real clock in a decision path, or depends on hash iteration order.
"""
