"""Greedy delta-debugging over explicit traces: keep a simplification while the *same
violation class* persists (DESIGN §2.7)."""

import time


def shrink(trace, execute, candidates, vclass, target, max_exec=200, max_seconds=240.0):
    """Return (minimised trace, its report, number of executions)."""
    t0 = time.monotonic()
    best = trace
    best_rep = None
    execs = 0
    improved = True
    while improved:
        improved = False
        for _desc, cand in candidates(best):
            if execs >= max_exec or time.monotonic() - t0 > max_seconds:
                return best, best_rep, execs
            if cand == best or not cand["ops"]:
                continue
            try:
                rep = execute(cand)
            except Exception:  # noqa: BLE001 - a candidate the harness cannot run is just not kept
                execs += 1
                continue
            execs += 1
            if rep["violations"] and vclass(rep["violations"][0]) == target:
                best, best_rep = cand, rep
                improved = True
                break
    return best, best_rep, execs
