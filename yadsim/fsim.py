"""Fault-injecting file layer (DESIGN §2.3, §2.4).

Real bytes on a real scratch file system; the real tarfile / zipfile / numpy / yaml /
pathlib / tempfile code runs unmodified.  Only the *raw* layer is interposed: ``builtins.open``,
``io.open`` and ``tarfile.bltn_open`` build the normal Buffered*/TextIOWrapper stack over a
``FaultyFileIO(io.FileIO)`` whose open/read/write consult the scheduler.  ``os.mkdir`` is
wrapped for mkdir faults.  Only paths under the run's scratch root are intercepted.
"""

import builtins
import errno
import io
import os
import tarfile
import tempfile

from .seams import SimCrash

ERRNOS = {"EIO": errno.EIO, "ENOSPC": errno.ENOSPC, "EMFILE": errno.EMFILE, "EACCES": errno.EACCES}


class FaultFS:
    def __init__(self, sched, root):
        self.sched = sched
        self.root = os.path.realpath(root)
        self.dead = False  # after a crash: raw writes are discarded until the driver restarts
        self.opened_for_write = set()
        self.discarded_after_crash = 0
        # simulated wall clock of the file system: every file written through the raw layer gets this
        # modification time when it is closed, so that st_mtime is a quantity the trace decides (ops carry
        # "dt") and not a reading of the real clock
        self.now = 1_700_000_000.0
        self._saved = []
        self.real_open = io.open
        self.real_mkdir = os.mkdir

    # ---- which paths belong to the simulation
    def mine(self, file):
        if isinstance(file, int):
            return False
        try:
            p = os.path.realpath(os.fspath(file))
        except TypeError:
            return False
        return p == self.root or p.startswith(self.root + os.sep)

    def begin_op(self):
        self.opened_for_write = set()

    # ---- decisions
    def decide(self, site):
        if self.dead:
            return None
        return self.sched.consult(site)

    def crash(self):
        self.dead = True
        raise SimCrash("process died at a raw I/O call")

    # ---- open()
    def sim_open(self, file, mode="r", buffering=-1, encoding=None, errors=None, newline=None,
                 closefd=True, opener=None):
        if not self.mine(file):
            return self.real_open(file, mode, buffering, encoding, errors, newline, closefd, opener)
        modes = set(mode)
        if modes - set("axrwb+tU") or len(mode) > len(modes):
            raise ValueError("invalid mode: %r" % mode)
        creating = "x" in modes
        reading = "r" in modes
        writing = "w" in modes
        appending = "a" in modes
        updating = "+" in modes
        text = "t" in modes
        binary = "b" in modes
        if text and binary:
            raise ValueError("can't have text and binary mode at once")
        if creating + reading + writing + appending > 1:
            raise ValueError("can't have read/write/append mode at once")
        if not (creating or reading or writing or appending):
            raise ValueError("must have exactly one of read/write/append mode")
        if binary and encoding is not None:
            raise ValueError("binary mode doesn't take an encoding argument")
        rawmode = (creating and "x" or "") + (reading and "r" or "") + (writing and "w" or "") + \
                  (appending and "a" or "") + (updating and "+" or "")
        raw = FaultyFileIO(self, file, rawmode, closefd, opener)
        result = raw
        try:
            line_buffering = False
            if buffering == 1 or buffering < 0 and raw.isatty():
                buffering = -1
                line_buffering = True
            if buffering < 0:
                buffering = io.DEFAULT_BUFFER_SIZE
            if buffering == 0:
                if binary:
                    return result
                raise ValueError("can't have unbuffered text I/O")
            if updating:
                buffer = io.BufferedRandom(raw, buffering)
            elif creating or writing or appending:
                buffer = io.BufferedWriter(raw, buffering)
            elif reading:
                buffer = io.BufferedReader(raw, buffering)
            else:
                raise ValueError("unknown mode: %r" % mode)
            result = buffer
            if binary:
                return result
            encoding = io.text_encoding(encoding)
            tw = io.TextIOWrapper(buffer, encoding, errors, newline, line_buffering)
            result = tw
            tw.mode = mode
            return result
        except BaseException:
            try:
                result.close()
            except BaseException:  # noqa: BLE001
                pass
            raise

    def sim_mkdir(self, path, mode=0o777, *, dir_fd=None):
        if dir_fd is None and self.mine(path):
            d = self.decide("mkdir")
            if d is not None:
                if d["do"] == "mkdir_fail":
                    raise OSError(ERRNOS.get(d.get("arg", "ENOSPC"), errno.ENOSPC), "simulated mkdir failure", str(path))
                if d["do"] == "crash":
                    self.crash()
            if self.dead:
                return None
        if dir_fd is None:
            return self.real_mkdir(path, mode)
        return self.real_mkdir(path, mode, dir_fd=dir_fd)

    def _dead_noop(self, real):
        """A dead process deletes nothing: while the simulated crash unwinds, the clean-up code of the process
        (TemporaryDirectory.__exit__ -> shutil.rmtree -> os.unlink / os.rmdir, also through dir_fd) must not
        remove what a killed process would have left behind."""
        def wrapper(*a, **kw):
            if self.dead:
                self.discarded_after_crash += 1
                return None
            return real(*a, **kw)
        return wrapper

    def install(self):
        self._saved = [(builtins, "open", builtins.open), (io, "open", io.open),
                       (tarfile, "bltn_open", tarfile.bltn_open), (os, "mkdir", os.mkdir),
                       (tempfile, "tempdir", tempfile.tempdir),
                       (os, "unlink", os.unlink), (os, "remove", os.remove), (os, "rmdir", os.rmdir),
                       (os, "replace", os.replace), (os, "rename", os.rename)]
        for name in ("unlink", "remove", "rmdir", "replace", "rename"):
            setattr(os, name, self._dead_noop(getattr(os, name)))
        builtins.open = self.sim_open
        io.open = self.sim_open
        tarfile.bltn_open = self.sim_open
        os.mkdir = self.sim_mkdir
        tmp = os.path.join(self.root, "tmp")
        self.real_mkdir(tmp) if not os.path.isdir(tmp) else None
        tempfile.tempdir = tmp
        return self

    def remove(self):
        for obj, name, old in reversed(self._saved):
            setattr(obj, name, old)
        self._saved = []


class FaultyFileIO(io.FileIO):
    """Raw file whose syscalls may fail, tear, come up short, or be the process's last."""

    def __init__(self, fs, file, mode="r", closefd=True, opener=None):
        self._fs = fs
        self._path = os.path.realpath(os.fspath(file))
        wr = any(c in mode for c in "wxa+")
        d = fs.decide("io_open")
        if d is not None:
            do = d["do"]
            if do == "open_fail":
                raise OSError(ERRNOS.get(d.get("arg", "EMFILE"), errno.EMFILE), "simulated open failure", str(file))
            if do == "crash":
                # the open itself has not happened yet
                fs.crash()
        if fs.dead and wr:
            # a dead process opens nothing: do not create or truncate; hand out a sink
            super().__init__(os.devnull, "w")
            self._sink = True
            return
        self._sink = False
        if wr:
            fs.opened_for_write.add(self._path)
        super().__init__(file, mode, closefd, opener)

    def close(self):
        stamp = not self.closed and not self._sink and any(c in self.mode for c in "wxa+")
        try:
            super().close()
        finally:
            if stamp and not self._fs.dead:
                try:
                    os.utime(self._path, (self._fs.now, self._fs.now))
                except OSError:
                    pass

    def write(self, b):
        fs = self._fs
        if fs.dead or self._sink:
            fs.discarded_after_crash += 1
            return len(b)
        d = fs.decide("io_write")
        if d is not None:
            do = d["do"]
            n = len(b)
            if do == "write_err":
                raise OSError(ERRNOS.get(d.get("arg", "EIO"), errno.EIO), "simulated write error")
            if do == "write_torn":
                k = max(0, min(n - 1, int(n * float(d.get("frac", 0.5)))))
                if k:
                    super().write(bytes(b[:k]))
                raise OSError(errno.ENOSPC, "simulated: no space left on device (torn write)")
            if do == "short_write":
                k = max(1, min(n, int(n * float(d.get("frac", 0.5))))) if n else 0
                return super().write(bytes(b[:k])) if k else 0
            if do == "crash":
                k = max(0, min(n, int(n * float(d.get("frac", 0.5)))))
                if k:
                    super().write(bytes(b[:k]))
                fs.crash()
        return super().write(b)

    def _read_fault(self):
        fs = self._fs
        if fs.dead:
            return None
        d = fs.decide("io_read")
        if d is not None:
            if d["do"] == "read_err":
                raise OSError(ERRNOS.get(d.get("arg", "EIO"), errno.EIO), "simulated read error")
            if d["do"] == "crash":
                fs.crash()
        return d

    def readinto(self, b):
        d = self._read_fault()
        if d is not None and d["do"] == "short_read":
            mv = memoryview(b).cast("B")
            n = len(mv)
            k = max(1, int(n * float(d.get("frac", 0.5)))) if n else 0
            if 0 < k < n:
                data = super().read(k)
                mv[: len(data)] = data
                return len(data)
        return super().readinto(b)

    def read(self, size=-1):
        d = self._read_fault()
        if d is not None and d["do"] == "short_read" and size is not None and size > 1:
            return super().read(max(1, int(size * float(d.get("frac", 0.5)))))
        return super().read(size)

    def readall(self):
        self._read_fault()
        return super().readall()
