"""Swarm generation of run cards and collision-biased kinematic pools (DESIGN §2.5).

Everything here is a pure function of the ``random.Random`` it is given.  Cards contain
only what a YAML run card can contain, so they are JSON-serialisable and a trace file is
self-contained.  Kinematic points are *ordered* ``[[key, value], ...]`` lists because the
key order of a kinematics dict is part of the input (cards are YAML, order is the author's).
"""

import math

CKM = "0.97428 0.22530 0.003470 0.22520 0.97345 0.041000 0.00862 0.04030 0.999152"

SF_KINDS_UNPOL = ["F2", "FL", "F3"]
SF_KINDS_POL = ["g1", "gL", "g4"]
XS_NC = ["XSHERANC", "XSHERANCAVG", "F1"]
XS_CC = ["XSHERACC", "XSCHORUSCC", "XSNUTEVCC", "XSNUTEVNU", "FW", "XSFPFCC", "F1"]
XS_ALL = sorted(set(XS_NC + XS_CC + ["g5"]))

GRIDS_LOG = [
    [0.001, 0.01, 0.1, 0.4, 1.0],
    [0.01, 0.05, 0.2, 0.5, 0.8, 1.0],
    [0.001, 0.01, 0.1, 0.3, 0.5, 0.7, 0.9, 1.0],
    [0.0001, 0.001, 0.01, 0.05, 0.15, 0.35, 0.6, 0.85, 1.0],
    [0.005, 0.03, 0.12, 0.3, 0.55, 0.8, 1.0],
    # small-x grids starting at a power of ten: repr() of such nodes is exponent-form with an integer
    # mantissa ('1e-05'), the spelling that text formats are most likely to mangle
    [1e-05, 0.001, 0.1, 0.5, 1.0],
    [1e-07, 1e-05, 0.001, 0.05, 0.3, 1.0],
]
GRIDS_LIN = [
    [0.1, 0.28, 0.46, 0.64, 0.82, 1.0],
    [0.05, 0.2, 0.4, 0.6, 0.8, 1.0],
    [0.1, 0.25, 0.4, 0.55, 0.7, 0.85, 1.0],
]


def base_theory():
    return dict(
        PTO=1,
        FNS="ZM-VFNS",
        NfFF=4,
        nf0=3,
        mc=1.51,
        mb=4.92,
        mt=172.5,
        kcThr=1.0,
        kbThr=1.0,
        ktThr=1.0,
        MaxNfPdf=6,
        MP=0.938,
        Q0=1.65,
        HQ="POLE",
        TMC=0,
        CKM=CKM,
        MW=80.398,
        MZ=91.1876,
        GF=1.1663787e-05,
        SIN2TW=0.23126,
        n3lo_cf_variation=0,
        ModEv="EXA",
        Qref=91.2,
        nfref=5,
        alphas=0.118,
        alphaqed=0.007496,
        XIR=1.0,
        XIF=1.0,
        IC=0,
        IB=0,
    )


def base_obs():
    return dict(
        interpolation_xgrid=list(GRIDS_LOG[2]),
        interpolation_polynomial_degree=3,
        interpolation_is_log=True,
        prDIS="NC",
        TargetDIS="proton",
        ProjectileDIS="electron",
        PolarizationDIS=0.0,
        PropagatorCorrection=0.0,
        NCPositivityCharge=None,
    )


def wchoice(rng, items):
    """items: list of (value, weight)."""
    tot = sum(w for _, w in items)
    r = rng.random() * tot
    acc = 0.0
    for v, w in items:
        acc += w
        if r < acc:
            return v
    return items[-1][0]


def gen_settings(rng, max_pto=2, allow_n3lo=False, cheap=False):
    """Draw one (theory, obs-base) pair.  ``cheap`` restricts to what costs milliseconds."""
    th = base_theory()
    ob = base_obs()
    # --- process / projectile
    proc = wchoice(rng, [("EM", 3), ("NC", 4), ("CC", 3)])
    ob["prDIS"] = proc
    if proc == "CC":
        ob["ProjectileDIS"] = wchoice(
            rng, [("electron", 2), ("positron", 2), ("neutrino", 3), ("antineutrino", 3)]
        )
    else:
        ob["ProjectileDIS"] = wchoice(
            rng, [("electron", 5), ("positron", 3), ("neutrino", 1), ("antineutrino", 1)]
        )
    ob["PolarizationDIS"] = wchoice(rng, [(0.0, 6), (0.5, 1), (-1.0, 1), (0.3, 1)])
    ob["PropagatorCorrection"] = wchoice(rng, [(0.0, 8), (0.1, 1)])
    ob["NCPositivityCharge"] = wchoice(rng, [(None, 12), ("up", 1), ("down", 1)]) if proc != "CC" else None
    # --- target
    ob["TargetDIS"] = wchoice(
        rng,
        [
            ("proton", 6),
            ("neutron", 1),
            ("isoscalar", 2),
            ("iron", 1),
            ("lead", 1),
            ("neon", 0.5),
            ("marble", 0.5),
            ({"Z": 1.0, "A": 1.0}, 1),
            ({"Z": 3.0, "A": 7.0}, 1),
            ({"Z": 1, "A": 2}, 0.7),  # integer spelling
        ],
    )
    # --- grid
    if rng.random() < 0.75:
        grid = list(rng.choice(GRIDS_LOG[:2] + GRIDS_LOG[5:6] if cheap else GRIDS_LOG))
        ob["interpolation_is_log"] = True
    else:
        grid = list(rng.choice(GRIDS_LIN))
        ob["interpolation_is_log"] = False
    ob["interpolation_xgrid"] = grid
    ob["interpolation_polynomial_degree"] = rng.randint(1, min(4, len(grid) - 2))
    # --- perturbative order
    pto_w = [(0, 3), (1, 5)]
    if max_pto >= 2:
        pto_w.append((2, 1.6))
    if max_pto >= 3 and allow_n3lo:
        pto_w.append((3, 0.8))
    pto = wchoice(rng, pto_w)
    th["PTO"] = pto
    r = rng.random()
    if r < 0.2:
        th["PTODIS"] = pto
    elif r < 0.3 and pto > 0:
        th["PTODIS"] = pto - 1
    elif r < 0.35:
        th["PTODIS"] = None
    # --- scheme
    fns = wchoice(
        rng,
        [("ZM-VFNS", 5), ("FFNS", 3), ("FFN0", 0.8), ("FONLL-FFNS", 1.2), ("FONLL-FFN0", 0.5)],
    )
    th["FNS"] = fns
    th["NfFF"] = wchoice(rng, [(3, 4), (4, 4), (5, 2)])
    if fns.startswith("FONLL"):
        r = rng.random()
        if r < 0.3:
            th["FONLLParts"] = "full"
        elif r < 0.5:
            th["FONLLParts"] = "massless"
        elif r < 0.7:
            th["FONLLParts"] = "massive"
        elif r < 0.8:
            th["FONLLParts"] = None
    elif rng.random() < 0.15:
        th["FONLLParts"] = "full"
    # --- TMC
    th["TMC"] = wchoice(rng, [(0, 5), (1, 2), (2, 2), (3, 2)])
    if pto >= 2 and th["TMC"] in (1, 3) and rng.random() < 0.7:
        th["TMC"] = 2
    # --- scale variations
    sv = wchoice(rng, [("absent", 2), ("TT", 2), ("TF", 1.5), ("FT", 1.5), ("FF", 3)])
    if pto >= 2 and rng.random() < 0.3:
        sv = "FF"
    if pto >= 3:
        sv = "FF"
    if sv != "absent":
        th["RenScaleVar"] = sv[0] == "T"
        th["FactScaleVar"] = sv[1] == "T"
    if pto >= 2 and th.get("FactScaleVar", True) is not False:
        # NNLO with factorisation-scale variations: the memo fill costs ~n² convolutions per label,
        # so use a small grid and spend the budget on having *several* points share the memo
        grid = list(rng.choice(GRIDS_LOG[:2]))
        ob["interpolation_xgrid"] = grid
        ob["interpolation_is_log"] = True
        ob["interpolation_polynomial_degree"] = rng.randint(1, min(3, len(grid) - 2))
    # --- masses and thresholds
    if rng.random() < 0.3:
        th["kcThr"] = wchoice(rng, [(1.0, 1), (2.0, 1), (0.8, 1)])
        th["kbThr"] = wchoice(rng, [(1.0, 2), (1.5, 1)])
    if rng.random() < 0.2:
        th["mc"] = wchoice(rng, [(1.4, 1), (1.3, 1)])
        th["mb"] = wchoice(rng, [(4.5, 1), (4.75, 1)])
    if rng.random() < 0.15:
        th["MP"] = wchoice(rng, [(1.0, 1), (0.5, 1)])
    th["n3lo_cf_variation"] = wchoice(rng, [(0, 8), (1, 1), (-1, 1)]) if pto >= 3 else 0
    # --- legacy spellings
    if rng.random() < 0.15:
        th["alphaem"] = th.pop("alphaqed")
    if rng.random() < 0.12:
        th["QED"] = rng.choice([0, 0, 1])
    if rng.random() < 0.2:
        th["XIR"] = rng.choice([2.0, 0.5, 1.0])
        th["XIF"] = rng.choice([2.0, 0.5, 1.0])
    if rng.random() < 0.1:
        th["CKM"] = [0.97428, 0.2253, 0.00347, 0.2252, 0.97345, 0.041, 0.00862, 0.0403, 0.999152]
    # rare but documented values of keys that the draws above leave at their usual setting: a random
    # generator that never produces them is blind to anything that special-cases them (adversarial seeded
    # change c20-positivity-all-normalised-in-echo: NCPositivityCharge "all", used by the repository's own
    # positivity cards, was never generated)
    if rng.random() < 0.3:
        for _ in range(rng.randint(1, 2)):
            tweak = rng.choice(["pos", "pol", "propcorr", "ktthr", "mt", "origin", "maxnf", "hq", "icib", "ckmspace",
                                "degmax", "twonodes", "kthr_fonll"])
            if tweak == "pos" and proc != "CC":
                ob["NCPositivityCharge"] = rng.choice(["all", "all", "strange", "charm", "bottom"])
            elif tweak == "pol":
                ob["PolarizationDIS"] = rng.choice([1.0, -1.0, 1, 0])
            elif tweak == "propcorr":
                ob["PropagatorCorrection"] = rng.choice([0.05, -0.02])
            elif tweak == "ktthr":
                th["ktThr"] = rng.choice([0.5, 2.0])
            elif tweak == "mt":
                th["mt"] = rng.choice([14.0, 20.0, 173.0])  # 14² = 196 is inside the Q² pools
            elif tweak == "origin":
                th["Q0"] = rng.choice([1.0, 2.0, 5.0])
                th["nf0"] = rng.choice([3, 4])
            elif tweak == "maxnf":
                th["MaxNfPdf"] = rng.choice([3, 4, 5])
            elif tweak == "hq":
                th["HQ"] = rng.choice(["MSBAR", "POLE"])
            elif tweak == "icib":
                th["IC"] = rng.choice([0, 1])
                th["IB"] = rng.choice([0, 1])
            elif tweak == "ckmspace" and isinstance(th["CKM"], str):
                th["CKM"] = "  ".join(th["CKM"].split()) + " "
            elif tweak == "degmax":
                ob["interpolation_polynomial_degree"] = len(ob["interpolation_xgrid"]) - 1
            elif tweak == "twonodes" and pto <= 1:
                ob["interpolation_xgrid"] = [0.05, 1.0]
                ob["interpolation_is_log"] = rng.choice([True, False])
                ob["interpolation_polynomial_degree"] = 1
            elif tweak == "kthr_fonll":
                th["kcThr"] = rng.choice([1.0, 1.5, 2.0])
                th["kbThr"] = rng.choice([1.0, 0.7, 2.0])
                if rng.random() < 0.5:
                    th["FNS"] = rng.choice(["FONLL-FFNS", "FONLL-FFN0", "FFNS"])
                    th["NfFF"] = 5
    # keys the runner never reads: real theory / observable cards (the NNPDF theory database, yadmark's
    # generated cards) carry IDs, comments, flags and lists that the runner has to echo and the two formats have
    # to carry unchanged.  Values are whatever YAML can hold: strings that look like numbers or YAML keywords,
    # None, bools, nested containers, long flat lists mixing ints, floats and bools (seeded change
    # c15-bulk-cast-of-long-card-lists: a homogenising cast of lists longer than 32 was invisible without them)
    if rng.random() < 0.35:
        for _ in range(rng.randint(1, 3)):
            k, v = gen_foreign_entry(rng)
            (th if rng.random() < 0.6 else ob)[k] = v
    if rng.random() < 0.12 and ob["interpolation_xgrid"][-1] == 1.0:
        ob["interpolation_xgrid"][-1] = 1  # hand-written cards end the grid with a plain 1
    # optional keys may simply be absent (the runner falls back to defaults for these)
    for k in ("MZ", "SIN2TW"):
        if rng.random() < 0.12:
            th.pop(k, None)
    for k in ("ModEv", "Qref", "nfref", "alphas", "XIR", "XIF", "IC", "IB", "MaxNfPdf", "HQ"):
        if rng.random() < 0.06:
            th.pop(k, None)
    if ob.get("ProjectileDIS") == "electron" and rng.random() < 0.1:
        ob.pop("ProjectileDIS")
    if pto <= 1 and rng.random() < (0.04 if pto == 0 else 0.015):
        # production-sized interpolation grids (eko's make_grid(n_low, n_mid) shape: log-spaced below 0.1,
        # linear above): 30 or 50 nodes where every generated grid so far stopped at 9
        ob["interpolation_xgrid"] = wide_grid(*rng.choice([(20, 10), (20, 10), (30, 20)]))
        ob["interpolation_is_log"] = True
        ob["interpolation_polynomial_degree"] = rng.choice([1, 4])
    if pto >= 3:
        # N3LO: only affordable on a 5-node grid (DESIGN §2.5)
        ob["interpolation_xgrid"] = list(GRIDS_LOG[0])
        ob["interpolation_is_log"] = True
        ob["interpolation_polynomial_degree"] = rng.randint(1, 3)
    return th, ob


def gen_foreign_entry(rng):
    """One (key, value) a card may carry although the runner never reads it."""
    n = rng.randint(33, 45)
    pool = [
        ("ID", rng.choice([208, 40000000, "208"])),
        ("Comments", rng.choice(["NNPDF4.0 NLO alphas=0.118", "caf\u00e9 \u2014 t\u00e9st: x, y # not a comment", "", "no", "~", "1e5", "on",
                                 "0x1F", "1_000", "null", "3.0", " leading blank", "multi\nline\ttext"])),
        ("global_nx", rng.choice([0, 1])),
        ("EScaleVar", rng.choice([1, True, None])),
        ("kDIScThr", rng.choice([1.0, 1, 1e-05, 1e22, -0.0])),
        ("Q2bins", [j if j % 3 else j * 1.5 for j in range(1, n)]),          # ints and floats, scalar first
        ("mixed_flags", [rng.choice([True, False, 0, 1, 2.0]) for _ in range(n)]),
        ("runs", list(range(n))),                                                # long and homogeneous
        ("labels", [1, 2, 3] + [rng.choice(["a", "1", "no", "inf"]) for _ in range(n)]),  # numbers first, then strings
        ("short_mixed", [1, 2.0, True, None, "x"]),
        ("nested", {"a": [1, 2.0, {"b": None}], "c": {"d": "x", "e": [[1, 2], [3.0]]}, "f": []}),
        ("DataSets", [{"name": "HERA", "id": 1}, {"name": "NMC", "id": 2.0, "cuts": None}]),
    ]
    return rng.choice(pool)


def wide_grid(n_low, n_mid, x_min=1e-4):
    """A production-like grid: n_low nodes log-spaced in [x_min, 0.1), n_mid linear in [0.1, 1]."""
    low = [float(repr(x_min * (0.1 / x_min) ** (i / n_low))[:12]) for i in range(n_low)]
    mid = [round(0.1 + 0.9 * i / (n_mid - 1), 10) for i in range(n_mid)]
    return low + mid


def matching_q2(th):
    """Q² values of the matching scales of a theory card (as the runner computes them)."""
    out = []
    for q in "cb":
        m2 = math.pow(th[f"m{q}"], 2) * math.pow(th[f"k{q}Thr"], 2)
        out.append(m2)
    return out


def nachtmann_xi(x, q2, mp):
    mu = mp**2 / q2
    rho = math.sqrt(1 + 4 * x**2 * mu)
    return 2 * x / (1 + rho)


def gen_pools(rng, th, ob, nx=4, nq=4):
    """Small, collision-biased pools of x, Q², y for one run."""
    grid = ob["interpolation_xgrid"]
    xmin = grid[0]
    inner = grid[1:-1] if len(grid) > 2 else grid
    xs = []
    # an exact grid node
    xs.append(rng.choice(inner))
    if xmin < 1e-4 and rng.random() < 0.7:
        # values whose repr is exponent-form: the first node itself and small multiples of it
        xs.append(rng.choice([xmin, 5 * xmin, 2 * xmin, 1e-05 if xmin <= 1e-05 else xmin]))
    # off-node values
    cands = [0.11, 0.23, 0.35, 0.47, 0.62, 0.73, 0.5, 0.9, 0.15]
    cands = [c for c in cands if c > xmin * 1.5]
    rng.shuffle(cands)
    xs.extend(cands[: max(1, nx - 2)])
    m2 = matching_q2(th)
    q2s = []
    base_q = [2.0, 4.0, 10.0, 17.5, 30.0, 90.0, 200.0]
    rng.shuffle(base_q)
    q2s.extend(base_q[:2])
    r = rng.random()
    if r < 0.5:
        # exactly at / just below / just above a matching scale
        t = rng.choice(m2)
        q2s.append(rng.choice([t, math.nextafter(t, 0.0), math.nextafter(t, math.inf), t * 1.5, t * 0.7]))
    if rng.random() < 0.4:
        # a Q² below 1 that is also used as an x value (swapped-value coincidence)
        q_small = rng.choice([0.9, 0.5, 0.7])
        q2s.append(q_small)
        xs.append(q_small)
        xs.append(rng.choice([0.5, 0.7, 0.9]))
    if rng.random() < 0.3:
        # int spelling, preferably of a value that is also in the pool as a float
        same = [int(q) for q in q2s if isinstance(q, float) and q == int(q)]
        q2s.append(rng.choice(same) if same and rng.random() < 0.7 else rng.choice([10, 4, 90]))
    if rng.random() < 0.12:
        # close neighbours (inside the default tolerances of isclose/allclose, 1e-5 relative): values that
        # anything comparing "up to tolerance" takes for the same scale or the same point
        v = rng.choice(q2s)
        if isinstance(v, float):
            q2s.append(v * (1.0 + rng.choice([5e-6, 2e-6, -3e-6])))
        w = rng.choice(xs)
        if w < 0.99:
            xs.append(w * (1.0 + rng.choice([2e-6, -2e-6])))
    if rng.random() < 0.12:
        # neighbours in the last bit
        v = rng.choice(q2s)
        if isinstance(v, float):
            q2s.append(math.nextafter(v, math.inf))
        w = rng.choice(xs)
        if w < 1.0:
            xs.append(math.nextafter(w, 0.0))
    if rng.random() < 0.15:
        xs.append(1.0)
    # Nachtmann coincidence: xi(x0, Q²) of another pool member
    if th.get("TMC", 0) and rng.random() < 0.6:
        x0 = rng.choice(xs)
        q0 = rng.choice(q2s)
        xi = nachtmann_xi(x0, float(q0), th["MP"])
        if xi > xmin:
            xs.append(xi)
    # de-duplicate but keep order
    xs = list(dict.fromkeys(x for x in xs if xmin <= x <= 1.0))[: nx + 2]
    q2s = list(dict.fromkeys(q2s))[: nq + 1]
    ys = [rng.choice([0.5, 0.3, 0.8]), rng.choice([0.1, 1.0, 0.65])]
    return {"x": xs, "Q2": q2s, "y": ys}


def make_point(rng, x, q2, y=None, order=None):
    keys = ["x", "Q2"] if y is None else ["x", "y", "Q2"]
    if order is None:
        if rng.random() < 0.25:
            rng.shuffle(keys)
    else:
        keys = list(order)
    vals = {"x": x, "Q2": q2, "y": y}
    return [[k, vals[k]] for k in keys]


def point_dict(point):
    return {k: v for k, v in point}


def gen_obs_names(rng, th, ob, n, allow_xs=True, wild=0.1):
    """Draw ``n`` distinct observable spellings plausible for the process."""
    proc = ob["prDIS"]
    fns = th["FNS"]
    names = []
    flav_w = [("light", 5), ("total", 3), ("charm", 3), ("bottom", 1.2)]
    if fns == "ZM-VFNS":
        flav_w = [("light", 5), ("total", 4), ("charm", 1.5), ("bottom", 0.7)]
    tries = 0
    while len(names) < n and tries < 40:
        tries += 1
        r = rng.random()
        if r < wild:
            kind = rng.choice(SF_KINDS_UNPOL + SF_KINDS_POL + XS_ALL)
            flav = rng.choice(["light", "total", "charm", "bottom", "top", "charmlight", "bottomlight"])
        elif allow_xs and r < wild + 0.22:
            kind = rng.choice(XS_CC if proc == "CC" else XS_NC)
            flav = wchoice(rng, flav_w)
        elif r < wild + 0.32:
            kind = rng.choice(SF_KINDS_POL)
            flav = wchoice(rng, [("light", 4), ("total", 2), ("charm", 1)])
        else:
            kind = wchoice(rng, [("F2", 5), ("FL", 3), ("F3", 2.5)])
            flav = wchoice(rng, flav_w)
        name = f"{kind}_{flav}"
        if flav == "total" and rng.random() < 0.4:
            name = kind  # alias spelling
            if rng.random() < 0.3 and f"{kind}_total" not in names and len(names) + 1 < n:
                # both spellings in one card: two separate entries for the runner and for the formats
                names.append(f"{kind}_total")
        if name not in names:
            names.append(name)
    return names


def is_xs(name):
    return name.split("_")[0] in XS_ALL


def gen_points(rng, pools, name, npts, th, plant=True):
    """Draw ``npts`` kinematic points for observable ``name`` from the pools, planting
    coincidences (duplicates, swapped values with opposite key order, Nachtmann pairs)."""
    xs, q2s, ys = pools["x"], pools["Q2"], pools["y"]
    pts = []
    xsflag = is_xs(name)
    for _ in range(npts):
        x = rng.choice(xs)
        q2 = rng.choice(q2s)
        y = rng.choice(ys) if xsflag else None
        pts.append(make_point(rng, x, q2, y))
    if not plant:
        return pts
    r = rng.random()
    if r < 0.2 and pts:
        # exact duplicate of an existing point (same or other key order)
        p = point_dict(rng.choice(pts))
        pts.insert(rng.randrange(len(pts) + 1), make_point(rng, p["x"], p["Q2"], p.get("y")))
    elif r < 0.45:
        # swapped numeric values, opposite key order
        small = [q for q in q2s if isinstance(q, float) and q < 1.0 and q in xs]
        if small:
            a = small[0]
            b = rng.choice([x for x in xs if x < 1.0])
            y = rng.choice(ys) if xsflag else None
            if xsflag:
                p1 = make_point(rng, b, a, y, order=["x", "y", "Q2"])
                p2 = make_point(rng, a, b, y, order=rng.choice([["Q2", "y", "x"], ["Q2", "x", "y"]]))
            else:
                p1 = make_point(rng, b, a, None, order=["x", "Q2"])
                p2 = make_point(rng, a, b, None, order=["Q2", "x"])
            pair = [p1, p2]
            if rng.random() < 0.5:
                pair.reverse()
            for p in pair:
                pts.insert(rng.randrange(len(pts) + 1), p)
    elif r < 0.7 and th.get("TMC", 0):
        # Nachtmann pair: (x0,Q²) and (xi(x0,Q²),Q²) in the same observable
        x0 = rng.choice(xs)
        q0 = rng.choice(q2s)
        xi = nachtmann_xi(x0, float(q0), th["MP"])
        y = rng.choice(ys) if xsflag else None
        pair = [make_point(rng, x0, q0, y, order=["x", "y", "Q2"] if xsflag else ["x", "Q2"]),
                make_point(rng, xi, q0, y, order=["x", "y", "Q2"] if xsflag else ["x", "Q2"])]
        if rng.random() < 0.5:
            pair.reverse()
        for p in pair:
            pts.insert(rng.randrange(len(pts) + 1), p)
    return pts


def est_cost(th, ob, name, jit):
    """Rough per-point cost in seconds (one core) used only to bound run sizes."""
    pto = th.get("PTODIS") if th.get("PTODIS") is not None else th["PTO"]
    n = len(ob["interpolation_xgrid"])
    base = {0: 0.004, 1: 0.05, 2: 0.5, 3: 2.5}[pto] * (n / 8.0)
    if th["FNS"] != "ZM-VFNS" and pto >= 1:
        base *= 2.0 if pto == 1 else 3.0
    if th["FNS"] != "ZM-VFNS" and pto >= 2 and not name.endswith("_light"):
        base *= 5.0  # massive NNLO kernels (LeProHQ) dominate, measured ≈ 25 s/point with TMC 1, JIT off
    if th.get("TMC", 0) in (1, 3):
        base *= n * 0.8
    elif th.get("TMC", 0) == 2:
        base *= 1.5
    if is_xs(name):
        base *= 2.5
    if jit:
        base /= 4.0
    return base


def sv_cost(th, ob, jit):
    """Rough cost of filling the scale-variation memo once per runner."""
    pto = th.get("PTODIS") if th.get("PTODIS") is not None else th["PTO"]
    if th.get("FactScaleVar", True) is False or pto == 0:
        return 0.0
    n = len(ob["interpolation_xgrid"])
    c = {1: 0.15, 2: 1.6, 3: 6.0}[pto] * (n / 8.0) ** 2
    return c / (6.0 if jit else 1.0)


HUGE_GRID = [0.05, 0.4, 1.0]


def huge_points(rng, n, xs=False):
    """n kinematic points for the rare *huge* runs (more than 256 per observable: the size at which
    CPython stops sharing small-int objects, 8-bit counters wrap, etc.); cheap because they are only
    used at leading order on a three-node grid."""
    xsv = [round(0.06 + 0.0045 * k, 4) for k in range(200)]  # many distinct values: distinct cache/memo keys
    q2v = [2.0, 5.0, 10.0, 30.0, 90.0, 250.0, 1000.0, 17.5]
    if rng.random() < 0.5:
        # many distinct virtualities as well (a fixed-target data set has tens to hundreds): whatever is kept per
        # Q2 in a runner then holds more than a few entries (adversarial seeded change
        # c14-adversarial-propagator-ring-of-32: a 32-slot memo keyed by Q2)
        q2v = [round(2.0 * 1.062 ** k, 3) for k in range(rng.choice([40, 120]))]
    pts = []
    for _ in range(n):
        pts.append(make_point(rng, rng.choice(xsv), rng.choice(q2v), rng.choice([0.2, 0.5, 0.9]) if xs else None,
                              order=["x", "y", "Q2"] if xs else ["x", "Q2"]))
    return pts
