"""C20 — the runner leaves its inputs untouched and echoes them (DESIGN §5).

Caller-owned, *aliased* card objects (shared kinematics lists, shared point dicts, shared
grid lists, shared target dicts) are re-used across constructions, runs, legacy-card
upgrades, caller edits and scribbles on returned outputs; interrupts and natural
rejections exercise the failure paths.  After every op every caller-owned object must be
exactly what the caller made it, and every output must echo the cards *as they were when
its runner was constructed*.
"""

import copy
import hashlib
import json

from . import canon, cards
from .prng import Streams
from .seams import FaultyStream, Sched, Seams, SimClock, SimInterrupt

PROPERTY = "C20"
FAULT_CONFIGS = ["none", "failing"]

PROJECTILE_PID = {"electron": 11, "positron": -11, "neutrino": 12, "antineutrino": -12}
FLAVOR_BASIS_PIDS = [22, -6, -5, -4, -3, -2, -1, 21, 1, 2, 3, 4, 5, 6]
NAMED_TARGETS = {
    "proton": (1.0, 1.0), "neutron": (0.0, 1.0), "isoscalar": (1.0, 2.0), "iron": (23.403, 49.618),
    "lead": (82.0, 208.0), "neon": (10.0, 20.0), "marble": (10.0, 20.0),
}


# ------------------------------------------------------------------------------------
# object graph with sharing:  {"$ref": name} refers to trace["shared"][name]
# ------------------------------------------------------------------------------------

def materialise(node, shared, memo):
    if isinstance(node, dict):
        if set(node.keys()) == {"$nd"}:
            # a numpy array where a YAML author would have a list (a grid from np.geomspace without .tolist())
            import numpy as np

            return np.array(node["$nd"], dtype=float)
        if set(node.keys()) == {"$npf"}:
            import numpy as np

            return np.float64(node["$npf"])  # kinematics built with np.linspace / np.geomspace
        if set(node.keys()) == {"$ref"}:
            name = node["$ref"]
            if name not in memo:
                memo[name] = None  # cycle guard (not generated)
                memo[name] = materialise(shared[name], shared, memo)
            return memo[name]
        return {k: materialise(v, shared, memo) for k, v in node.items()}
    if isinstance(node, list):
        return [materialise(v, shared, memo) for v in node]
    return node


def fingerprint(obj, ids=None, path="$"):
    """(structure-with-exact-values, identity map path→id) of a caller-owned object."""
    if ids is None:
        ids = {}
    if isinstance(obj, dict):
        ids[path] = id(obj)
        return ("dict", tuple((k, fingerprint(v, ids, f"{path}.{k}")[0]) for k, v in obj.items())), ids
    if isinstance(obj, list):
        ids[path] = id(obj)
        return ("list", tuple(fingerprint(v, ids, f"{path}[{i}]")[0] for i, v in enumerate(obj))), ids
    if type(obj).__name__ == "ndarray":
        ids[path] = id(obj)
        return ("ndarray", (str(obj.dtype), tuple(obj.shape), obj.tobytes().hex())), ids
    return (type(obj).__name__, canon._num(obj) if not isinstance(obj, str) else obj), ids


def fp_diff(a, b, path="$"):
    """First difference between two fingerprints' structure parts."""
    if a == b:
        return None
    if a[0] != b[0]:
        return f"{path}: type {a[0]} -> {b[0]}"
    if a[0] == "dict":
        ka = [k for k, _ in a[1]]
        kb = [k for k, _ in b[1]]
        if ka != kb:
            return f"{path}: keys {ka} -> {kb}"
        for (k, va), (_, vb) in zip(a[1], b[1]):
            d = fp_diff(va, vb, f"{path}.{k}")
            if d:
                return d
    if a[0] == "list":
        if len(a[1]) != len(b[1]):
            return f"{path}: length {len(a[1])} -> {len(b[1])}"
        for i, (va, vb) in enumerate(zip(a[1], b[1])):
            d = fp_diff(va, vb, f"{path}[{i}]")
            if d:
                return d
    return f"{path}: {a[1]!r} -> {b[1]!r}"


# ------------------------------------------------------------------------------------
# generation
# ------------------------------------------------------------------------------------

def _cheap_settings(rng):
    th, ob = cards.gen_settings(rng, max_pto=1, cheap=True)
    if th["PTO"] == 1 and rng.random() < 0.6:
        th["PTO"] = 0
        if th.get("PTODIS") is not None:
            th["PTODIS"] = 0
    if th["TMC"] in (1, 3) and rng.random() < 0.6:
        th["TMC"] = rng.choice([0, 2])
    return th, ob


def gen_cards(rng):
    """A pool of caller-owned cards with the aliasing real users create."""
    shared = {}
    cardsd = {}
    nth = rng.randint(1, 3)
    nob = rng.randint(1, 3)
    base_th, base_ob = _cheap_settings(rng)
    pools = cards.gen_pools(rng, base_th, base_ob)
    # shared pieces
    shared["G0"] = list(base_ob["interpolation_xgrid"])
    tgt = base_ob["TargetDIS"]
    if isinstance(tgt, dict):
        shared["TG0"] = dict(tgt)
    else:
        shared["TG0"] = {"Z": 1.0, "A": 2.0}
    # points, some of them shared objects
    npts = rng.randint(1, 3)
    plain_pts = []
    for k in range(npts):
        x = rng.choice(pools["x"])
        q2 = rng.choice(pools["Q2"])
        shared[f"P{k}"] = {kk: v for kk, v in cards.make_point(rng, x, q2)}
        plain_pts.append({"$ref": f"P{k}"})
    if rng.random() < 0.4:
        plain_pts.append({"$ref": "P0"})  # the same point dict twice in a list
    if rng.random() < 0.005:
        # huge: more than 256 points in the shared kinematics list (leading order, three-node grid)
        base_th["PTO"] = 0
        base_th.pop("PTODIS", None)
        base_th["TMC"] = 0
        base_ob["interpolation_xgrid"] = list(cards.HUGE_GRID)
        base_ob["interpolation_polynomial_degree"] = 1
        shared["G0"] = list(cards.HUGE_GRID)
        for pt in cards.huge_points(rng, rng.randint(257, 290)):
            plain_pts.append({kk: v for kk, v in pt})
    shared["K0"] = plain_pts
    xs_pts = []
    for k in range(rng.randint(1, 2)):
        x = rng.choice(pools["x"])
        q2 = rng.choice(pools["Q2"])
        y = rng.choice(pools["y"])
        shared[f"XP{k}"] = {kk: v for kk, v in cards.make_point(rng, x, q2, y)}
        xs_pts.append({"$ref": f"XP{k}"})
    shared["XK0"] = xs_pts
    for i in range(nth):
        if i == 0:
            th = base_th
        else:
            th, _ = _cheap_settings(rng)
        cardsd[f"T{i}"] = th
    for j in range(nob):
        if j == 0:
            ob = copy.deepcopy(base_ob)
        else:
            _, ob = _cheap_settings(rng)
            if rng.random() < 0.6:
                ob["interpolation_xgrid"] = list(base_ob["interpolation_xgrid"])
                ob["interpolation_is_log"] = base_ob["interpolation_is_log"]
                ob["interpolation_polynomial_degree"] = base_ob["interpolation_polynomial_degree"]
        if j > 0 and rng.random() < 0.15:
            # another card on the same grid up to the 7th digit of one node
            g = list(shared["G0"])
            k = rng.randrange(1, len(g) - 1) if len(g) > 2 else 0
            g[k] = g[k] * (1.0 + rng.choice([1e-7, -1e-7]))
            ob["interpolation_xgrid"] = g
            ob["interpolation_is_log"] = base_ob["interpolation_is_log"]
            ob["interpolation_polynomial_degree"] = base_ob["interpolation_polynomial_degree"]
        # aliasing choices
        same_grid = ob["interpolation_xgrid"] == shared["G0"]
        if same_grid and rng.random() < 0.7:
            ob["interpolation_xgrid"] = {"$ref": "G0"}
        r = rng.random()
        if r < 0.35:
            ob["TargetDIS"] = {"$ref": "TG0"}
        names = cards.gen_obs_names(rng, cardsd["T0"], ob, rng.randint(1, 3), wild=0.05)
        obsd = {}
        for n in names:
            if cards.is_xs(n):
                obsd[n] = {"$ref": "XK0"} if rng.random() < 0.7 else copy.deepcopy(xs_pts)
            else:
                # yadmark.data.observables.build puts the *same* kinematics list under every observable
                obsd[n] = {"$ref": "K0"} if rng.random() < 0.7 else copy.deepcopy(plain_pts)
        if rng.random() < 0.08:
            obsd[rng.choice(["F2_light", "FL_total"])] = []
        if rng.random() < 0.04:
            obsd = {}  # a card without any observable
        ob["observables"] = obsd
        cardsd[f"O{j}"] = ob
    # spellings a YAML author may use
    if rng.random() < 0.15:
        shared["G0"][-1] = 1  # integer spelling of the last node
    # cards built in Python rather than read from YAML: the grid as a numpy array, kinematic values as numpy
    # scalars (np.geomspace / np.linspace without .tolist()) - mutable or foreign-typed leaves that a
    # "dicts and lists only" copy hands through by reference (adversarial seeded change
    # c20-adversarial-detach-keeps-leaves-by-reference)
    if rng.random() < 0.08:
        shared["G0"] = {"$nd": [float(v) for v in shared["G0"]]}
    if rng.random() < 0.08:
        for name, node in shared.items():
            if name.startswith(("P", "XP")) and isinstance(node, dict):
                for kk in list(node):
                    if isinstance(node[kk], float):
                        node[kk] = {"$npf": node[kk]}
    if rng.random() < 0.08:
        t = cardsd[f"T{rng.randrange(nth)}"]
        t.setdefault("alphaqed", 0.007496)
        t.setdefault("alphaem", 0.007496)  # both the legacy and the new key present
    # natural rejections: a minority of cards carries something the runner refuses
    r = rng.random()
    if r < 0.06:
        cardsd[f"O{rng.randrange(nob)}"]["TargetDIS"] = "kryptonite"
    elif r < 0.12:
        cardsd[f"T{rng.randrange(nth)}"]["FNS"] = "ACOT"
    elif r < 0.18:
        shared["P0"]["x"] = 1.5
    elif r < 0.22:
        cardsd[f"O{rng.randrange(nob)}"]["ProjectileDIS"] = "muon"
    elif r < 0.26:
        cardsd[f"O{rng.randrange(nob)}"]["observables"]["F7_light"] = {"$ref": "K0"}
    return shared, cardsd


EDITS_THEORY = [("PTO", [0, 1]), ("FNS", ["ZM-VFNS", "FFNS", "FONLL-FFNS"]), ("TMC", [0, 2]),
                ("NfFF", [3, 4, 5]), ("kcThr", [1.0, 2.0]), ("mc", [1.4, 1.51]), ("MP", [0.938, 1.0]),
                ("RenScaleVar", [True, False]), ("FactScaleVar", [True, False]), ("PTODIS", [0, None]),
                ("FONLLParts", ["full", "massless", None])]
EDITS_OBS = [("prDIS", ["EM", "NC", "CC"]), ("ProjectileDIS", ["electron", "positron", "neutrino"]),
             ("TargetDIS", ["proton", "isoscalar", "lead", {"Z": 2.0, "A": 4.0}, {"Z": 26, "A": 56}]),
             ("PolarizationDIS", [0.0, 0.4]), ("interpolation_polynomial_degree", [1, 2])]


def gen_edit(rng, shared, cardsd):
    """A caller edit: {"root": name, "path": [...], "action": set|append|delete, "value": v}."""
    r = rng.random()
    if r < 0.3:
        t = rng.choice([k for k in cardsd if k.startswith("T")])
        key, vals = rng.choice(EDITS_THEORY)
        return {"root": t, "path": [key], "action": "set", "value": rng.choice(vals)}
    if r < 0.5:
        o = rng.choice([k for k in cardsd if k.startswith("O")])
        key, vals = rng.choice(EDITS_OBS)
        return {"root": o, "path": [key], "action": "set", "value": rng.choice(vals)}
    if r < 0.65:
        pts = [k for k in shared if k.startswith("P") or k.startswith("XP")]
        p = rng.choice(pts)
        key = rng.choice(["x", "Q2"])
        val = rng.choice([0.2, 0.45, 0.6]) if key == "x" else rng.choice([3.0, 20.0, 50.0])
        return {"root": p, "path": [key], "action": "set", "value": val}
    if r < 0.75:
        k = rng.choice(["K0", "XK0"])
        if k == "K0":
            return {"root": k, "path": [], "action": "append", "value": {"x": 0.3, "Q2": 12.0}}
        return {"root": k, "path": [], "action": "append", "value": {"x": 0.3, "y": 0.4, "Q2": 12.0}}
    if r < 0.82:
        k = rng.choice(["K0", "XK0"])
        return {"root": k, "path": [0], "action": "delete"}
    if r < 0.86:
        return {"root": "G0", "path": [1], "action": "set", "value": rng.choice([0.02, 0.15])}
    if r < 0.92:
        # the same grid up to the 7th digit of one node (as re-read from a file with limited precision)
        return {"root": "G0", "path": [rng.choice([1, 2])], "action": "scale", "value": rng.choice([1.0 + 1e-7, 1.0 - 1e-7, 1.0 + 3e-6])}
    if r < 0.96:
        return {"root": "TG0", "path": ["Z"], "action": "set", "value": rng.choice([0.0, 1.0, 2.0])}
    o = rng.choice([k for k in cardsd if k.startswith("O")])
    return {"root": o, "path": ["observables", rng.choice(["F2_charm", "FL_light", "F3_total"])],
            "action": "set", "value": {"$ref": "K0"}}


def generate(run_seed, fault_config="none", jit=False, max_ops=14, meta=None):
    st = Streams(run_seed)
    cfg, ops_rng, frng = st["config"], st["ops"], st["faults"]
    shared, cardsd = gen_cards(cfg)
    tnames = [k for k in cardsd if k.startswith("T")]
    onames = [k for k in cardsd if k.startswith("O")]
    nclients = cfg.randint(1, 3)
    ops = []
    runners = []
    outputs = []
    nops = ops_rng.randint(4, max_ops)
    fault_rate = frng.choice([0.15, 0.3, 0.5]) if fault_config != "none" else 0.0
    while len(ops) < nops:
        choices = [("construct", 4 if len(runners) < 4 else 0.5), ("upgrade", 1.2), ("upgrade_twice", 0.8),
                   ("caller_edit", 2.5), ("run_yadism", 0.8)]
        if runners:
            choices.append(("run", 5))
            choices.append(("touch", 1.2))
        if outputs:
            choices.append(("scribble", 2))
        kind = cards.wchoice(ops_rng, choices)
        op = {"id": len(ops), "client": ops_rng.randrange(nclients), "op": kind}
        if kind in ("construct", "upgrade", "upgrade_twice", "run_yadism"):
            op["theory"] = ops_rng.choice(tnames)
            op["obs"] = ops_rng.choice(onames)
            if kind == "construct":
                op["runner"] = f"R{len(runners)}"
                runners.append(op["runner"])
            if kind == "run_yadism":
                outputs.append(op["id"])
        elif kind == "run":
            op["runner"] = ops_rng.choice(runners)
            outputs.append(op["id"])
        elif kind == "touch":
            # the other public entry points of a live runner: one observable, one element, drop_cache
            op["runner"] = ops_rng.choice(runners)
            op["how"] = ops_rng.choice(["sf_get_result", "elem_get_result", "drop_cache", "sf_get_result"])
            op["which"] = ops_rng.randrange(6)
        elif kind == "caller_edit":
            op["edit"] = gen_edit(ops_rng, shared, cardsd)
        elif kind == "scribble":
            op["handle"] = ops_rng.choice(outputs)
            op["what"] = ops_rng.choice(["theory", "observables", "xgrid", "pids", "result", "kin", "all"])
        faults = []
        if fault_rate and kind in ("upgrade", "upgrade_twice") and frng.random() < fault_rate:
            # an interrupt at an arbitrary source line of the legacy-card upgrade
            faults.append({"site": "line", "call": frng.randrange(0, 45), "do": "interrupt_line"})
        if fault_rate and (kind in ("construct", "run", "run_yadism") or (kind == "touch" and op["how"] != "drop_cache")) \
                and frng.random() < fault_rate:
            import math as _m

            if frng.random() < 0.4:
                hi = 260 if kind not in ("run", "touch") else 400
                faults.append({"site": "line", "call": int(_m.exp(frng.random() * _m.log(hi))) - 1, "do": "interrupt_line"})
            elif kind == "construct":
                faults.append({"site": "get_esf", "call": frng.randrange(0, 6), "do": "interrupt_get_esf"})
            else:
                site = frng.choice(["conv", "conv", "console", "get_esf"])
                if site == "conv":
                    faults.append({"site": "conv", "call": int(frng.random() ** 2 * 120), "do": "interrupt_conv"})
                elif site == "console":
                    faults.append({"site": "console", "call": frng.randrange(0, 30), "do": "interrupt_console"})
                else:
                    faults.append({"site": "get_esf", "call": frng.randrange(0, 8), "do": "interrupt_get_esf"})
        op["faults"] = faults
        ops.append(op)
    trace = {"format": 1, "property": PROPERTY, "run_seed": int(run_seed), "fault_config": fault_config,
             "jit": bool(jit), "shared": shared, "cards": cardsd, "ops": ops}
    if meta:
        trace.update(meta)
    return trace


# ------------------------------------------------------------------------------------
# execution
# ------------------------------------------------------------------------------------

class C20Seams(Seams):
    """Same seams as C14; get_esf additionally is an interrupt site."""

    def install(self):
        super().install()
        import yadism.sf as sfmod

        sched = self.sched
        wrapped = sfmod.StructureFunction.get_esf

        def get_esf(self_, obs_name, kinematics, *a, **kw):
            d = sched.pending.get(("get_esf", sched.counts["get_esf"]))
            if d is not None and d["do"] == "interrupt_get_esf" and sched.active and not sched.quiet:
                sched.consult("get_esf")
                raise SimInterrupt("interrupt@get_esf")
            return wrapped(self_, obs_name, kinematics, *a, **kw)

        self._patch(sfmod.StructureFunction, "get_esf", get_esf)
        return self


def _apply_edit(root_obj, edit, shared_objs):
    tgt = root_obj
    path = edit["path"]
    act = edit["action"]
    val = edit.get("value")
    if isinstance(val, dict) and set(val.keys()) == {"$ref"}:
        val = shared_objs.get(val["$ref"])
    else:
        val = copy.deepcopy(val)
    if act == "append":
        for p in path:
            tgt = tgt[p]
        if not isinstance(tgt, list):
            return False
        tgt.append(val)
        return True
    if not path:
        return False
    for p in path[:-1]:
        try:
            tgt = tgt[p]
        except (KeyError, IndexError, TypeError):
            return False
    last = path[-1]
    try:
        if act == "scale":
            if isinstance(tgt[last], bool) or not (isinstance(tgt[last], (int, float))
                                                   or type(tgt[last]).__name__ in ("float64", "int64")):
                return False
            tgt[last] = tgt[last] * val
            return True
        if act == "set":
            if (isinstance(tgt, list) or type(tgt).__name__ == "ndarray") \
                    and not (isinstance(last, int) and 0 <= last < len(tgt)):
                return False
            tgt[last] = val
        elif act == "delete":
            if type(tgt).__name__ == "ndarray":
                return False
            if isinstance(tgt, list) and not (isinstance(last, int) and 0 <= last < len(tgt)):
                return False
            if isinstance(tgt, dict) and last not in tgt:
                return False
            del tgt[last]
    except (KeyError, IndexError, TypeError):
        return False
    return True


class Execution:
    def __init__(self, trace, collect_states=True):
        self.trace = trace
        self.sched = Sched()
        self.clock = SimClock(self.sched)
        self.seams = C20Seams(self.sched, self.clock)
        self.probes = self.seams.probes
        self.events = []
        self.violations = []
        self.collect_states = collect_states
        self.states = set()
        self.transitions = set()
        self.interrupted = 0
        self.rejected = 0
        self.returned = 0
        self.skipped = 0
        self.cells = set()

    def log(self, *a):
        self.events.append(a)

    def violation(self, oracle, at_op, what, detail, tags=None):
        self.violations.append({"oracle": oracle, "at_op": at_op, "op": self.trace["ops"][at_op]["op"],
                                "what": what, "detail": detail, "tags": tags or []})

    # ---- model
    def refresh_model(self):
        self.model = {}
        for name, obj in self.owned.items():
            self.model[name] = fingerprint(obj)

    def check_owned(self, i):
        for name, obj in self.owned.items():
            fp, ids = fingerprint(obj)
            mfp, mids = self.model[name]
            if fp != mfp:
                self.violation("caller-object-modified", i, [name], fp_diff(mfp, fp))
                return False
            if ids != mids:
                changed = sorted(k for k in mids if ids.get(k) != mids[k])
                self.violation("caller-object-nested-container-replaced", i, [name], f"identity changed at {changed[:3]}")
                return False
        return True

    def run(self):
        import yadism  # noqa: F401

        tr = self.trace
        memo = {}
        self.shared_objs = {}
        for name in tr["shared"]:
            self.shared_objs[name] = materialise({"$ref": name}, tr["shared"], memo)
        self.card_objs = {k: materialise(v, tr["shared"], memo) for k, v in tr["cards"].items()}
        self.owned = dict(self.card_objs)
        self.owned.update(self.shared_objs)
        self.refresh_model()
        for k, c in self.card_objs.items():
            if k.startswith("T"):
                self.cells.add((c.get("FNS"), c.get("NfFF"), c.get("TMC")))
            else:
                t = c.get("TargetDIS")
                self.cells.add((c.get("prDIS"), c.get("ProjectileDIS"), t if isinstance(t, str) else "dict"))
        self.runners = {}
        self.outputs = {}
        self.seams.install()
        try:
            prev = "init"
            for i, op in enumerate(tr["ops"]):
                self.sched.begin_op(i, op.get("faults"))
                n0 = len(self.sched.fired)
                tracing = any(f.get("site") == "line" for f in op.get("faults") or [])
                try:
                    if tracing:
                        self.seams.lines.start()
                    self.do_op(i, op)
                finally:
                    if tracing:
                        self.seams.lines.stop()
                    self.sched.end_op()
                if self.violations:
                    break
                if not self.check_owned(i):
                    break
                if not self.check_outputs(i):
                    break
                if self.collect_states:
                    sig = self.signature()
                    self.states.add(sig)
                    self.transitions.add((prev, op["op"], tuple(sorted(f[3] for f in self.sched.fired[n0:])), sig))
                    prev = sig
        finally:
            self.seams.remove()
        return self.report()

    def signature(self):
        sig = (tuple(sorted((k, v["ok"], v.get("edited_since", False), v.get("runs", 0)) for k, v in self.runners.items())),
               len(self.outputs), sum(1 for o in self.outputs.values() if o["scribbled"]))
        return hashlib.sha256(repr(sig).encode()).hexdigest()[:16]

    # ---- echo expectations
    def expected_meta(self, snap_obs):
        exp = {}
        # the grid *actually used*: eko's XGrid orders the nodes, so an unsorted card grid is
        # echoed in ascending order (demanding the card's own order would ask for more than the
        # property states); for a sorted card grid this is the card's list itself
        g = canon.plain(snap_obs.get("interpolation_xgrid"))
        try:
            exp["grid"] = sorted(g)
        except TypeError:
            exp["grid"] = g
        exp["degree"] = snap_obs.get("interpolation_polynomial_degree")
        exp["is_log"] = snap_obs.get("interpolation_is_log")
        exp["projectilePID"] = PROJECTILE_PID.get(snap_obs.get("ProjectileDIS", "electron"))
        return exp

    def check_output_echo(self, i, out, snap_t, snap_o, tags):
        if not canon.plain_equal(out.theory, snap_t):
            self.violation("echo-differs-from-construction-card", i, ["theory"],
                           _first_diff(canon.plain(snap_t), canon.plain(out.theory)), tags)
            return False
        if not canon.plain_equal(out.observables, snap_o):
            self.violation("echo-differs-from-construction-card", i, ["observables"],
                           _first_diff(canon.plain(snap_o), canon.plain(out.observables)), tags)
            return False
        exp = self.expected_meta(snap_o)
        try:
            grid = canon.plain(out["xgrid"]["grid"])
            if not canon.plain_equal(grid, exp["grid"]):
                self.violation("echo-grid", i, ["xgrid"], f"{grid} != {exp['grid']}", tags)
                return False
            if out["xgrid"]["log"] != exp["is_log"] or out["is_log"] != exp["is_log"]:
                self.violation("echo-grid", i, ["is_log"], f"{out['xgrid']['log']}/{out['is_log']} != {exp['is_log']}", tags)
                return False
            if out["polynomial_degree"] != exp["degree"]:
                self.violation("echo-grid", i, ["polynomial_degree"], f"{out['polynomial_degree']} != {exp['degree']}", tags)
                return False
            if canon.plain(out["pids"]) != FLAVOR_BASIS_PIDS:
                self.violation("echo-pids", i, ["pids"], f"{canon.plain(out['pids'])}", tags)
                return False
            if out["projectilePID"] != exp["projectilePID"]:
                self.violation("echo-projectile", i, ["projectilePID"], f"{out['projectilePID']} != {exp['projectilePID']}", tags)
                return False
        except (KeyError, TypeError) as e:
            self.violation("echo-missing", i, [str(e)], f"{type(e).__name__}: {e}", tags)
            return False
        # the results recorded are those of the card the runner was given
        for name, pts in snap_o.get("observables", {}).items():
            got = out.get(name)
            if got is None or len(got) != len(pts):
                self.violation("result-kinematics-differ-from-construction-card", i, [name],
                               f"{None if got is None else len(got)} results for {len(pts)} points", tags)
                return False
            for j, (p, r) in enumerate(zip(pts, got)):
                for k in ("x", "Q2", "y"):
                    if k in p and canon._num(getattr(r, k, None)) != canon._num(p[k]):
                        self.violation("result-kinematics-differ-from-construction-card", i, [name, j, k],
                                       f"result {k}={getattr(r, k, None)!r}, card {k}={p[k]!r}", tags)
                        return False
        return True

    def out_digest(self, out):
        h = hashlib.sha256()
        h.update(json.dumps(canon.plain(out.theory), sort_keys=True, default=str).encode())
        h.update(json.dumps(canon.plain(out.observables), sort_keys=True, default=str).encode())
        for k in out:
            v = out[k]
            if isinstance(v, list) and v and hasattr(v[0], "orders"):
                h.update(k.encode() + canon.results_digest(v).encode())
            elif isinstance(v, list) and not v:
                h.update(k.encode() + b"[]")
            else:
                h.update(k.encode() + json.dumps(canon.plain(v), sort_keys=True, default=str).encode())
        return h.hexdigest()[:32]

    def check_outputs(self, i):
        """Outputs are independent objects: nothing but an explicit scribble changes one."""
        for hid, o in self.outputs.items():
            if o["scribbled"]:
                continue
            if self.out_digest(o["out"]) != o["digest"]:
                self.violation("held-output-changed", i, [hid], f"output returned by op {hid} changed during op {i}",
                               o.get("tags"))
                return False
        return True

    # ---- ops
    def do_op(self, i, op):
        import yadism
        from yadism.input import compatibility

        kind = op["op"]
        if kind == "caller_edit":
            e = op["edit"]
            ok = _apply_edit(self.owned[e["root"]], e, self.shared_objs) if e["root"] in self.owned else False
            if ok:
                self.refresh_model()
                for r in self.runners.values():
                    r["edited_since"] = True
                self.probes["caller_edit"] += 1
            else:
                self.skipped += 1
            self.log(i, kind, e["root"], ok)
            return
        if kind == "scribble":
            o = self.outputs.get(op["handle"])
            if o is None:
                self.skipped += 1
                self.log(i, kind, "skipped")
                return
            _scribble_output(o["out"], op["what"])
            o["scribbled"] = True
            self.probes["scribble"] += 1
            self.log(i, kind, op["handle"], op["what"])
            return
        if kind in ("upgrade", "upgrade_twice"):
            t, o = self.card_objs[op["theory"]], self.card_objs[op["obs"]]
            try:
                nt, no = compatibility.update(t, o)
            except SimInterrupt:
                self.interrupted += 1
                self.probes["failure_path_taken"] += 1
                self.log(i, kind, "interrupted")
                return
            except Exception as e:  # noqa: BLE001
                self.rejected += 1
                self.probes["failure_path_taken"] += 1
                self.log(i, kind, "raise", type(e).__name__)
                return
            if nt is t or no is o:
                # not a violation by itself: the property forbids *modifying* the caller's cards (checked by
                # the fingerprints after every op), not handing an untouched card back
                self.probes["upgrade_returned_input_object"] += 1
            if kind == "upgrade_twice":
                snap_t, snap_o = copy.deepcopy(nt), copy.deepcopy(no)
                try:
                    nt2, no2 = compatibility.update(nt, no)
                except SimInterrupt:
                    self.interrupted += 1
                    self.probes["failure_path_taken"] += 1
                    self.log(i, kind, "interrupted-2nd")
                    return
                if not canon.plain_equal(nt2, snap_t) or not canon.plain_equal(no2, snap_o):
                    d = _first_diff(canon.plain(snap_t), canon.plain(nt2)) or _first_diff(canon.plain(snap_o), canon.plain(no2))
                    self.violation("upgrade-not-idempotent", i, [op["theory"], op["obs"]], d)
                    return
                if not canon.plain_equal(nt, snap_t) or not canon.plain_equal(no, snap_o):
                    self.violation("upgrade-modified-its-input", i, [op["theory"], op["obs"]], "second update changed the first's result")
                    return
            self.returned += 1
            self.log(i, kind, "ok", hashlib.sha256(json.dumps(canon.plain(nt), sort_keys=True, default=str).encode()).hexdigest()[:12])
            return
        if kind == "construct":
            t, o = self.card_objs[op["theory"]], self.card_objs[op["obs"]]
            snap = (copy.deepcopy(t), copy.deepcopy(o))
            if self.runners and any(r.get("tname") == op["theory"] or r.get("oname") == op["obs"] for r in self.runners.values()):
                self.probes["card_object_reused"] += 1
            try:
                r = yadism.Runner(t, o)
                r.console.file = FaultyStream(self.sched)
                self.runners[op["runner"]] = {"ok": True, "runner": r, "snap": snap, "tname": op["theory"], "oname": op["obs"]}
                self.returned += 1
                self.log(i, kind, op["runner"], "ok")
            except SimInterrupt:
                self.runners[op["runner"]] = {"ok": False, "tname": op["theory"], "oname": op["obs"]}
                self.interrupted += 1
                self.probes["failure_path_taken"] += 1
                self.log(i, kind, "interrupted")
            except Exception as e:  # noqa: BLE001
                self.runners[op["runner"]] = {"ok": False, "tname": op["theory"], "oname": op["obs"]}
                self.rejected += 1
                self.probes["failure_path_taken"] += 1
                self.log(i, kind, "raise", type(e).__name__)
            return
        if kind == "run":
            rec = self.runners.get(op["runner"])
            if rec is None or not rec["ok"]:
                self.skipped += 1
                self.log(i, kind, "skipped")
                return
            tags = ["caller-edit"] if rec.get("edited_since") else []
            if rec.get("edited_since"):
                self.probes["run_after_caller_edit"] += 1
            n0 = len(self.sched.fired)
            try:
                out = rec["runner"].get_result()
            except SimInterrupt:
                self.interrupted += 1
                self.probes["failure_path_taken"] += 1
                self.log(i, kind, "interrupted")
                return
            except Exception as e:  # noqa: BLE001
                if isinstance(e, OSError) and any(f[3] == "interrupt_console" for f in self.sched.fired[n0:]):
                    self.interrupted += 1
                else:
                    self.rejected += 1
                self.probes["failure_path_taken"] += 1
                self.log(i, kind, "raise", type(e).__name__)
                return
            rec["runs"] = rec.get("runs", 0) + 1
            self.returned += 1
            if not self.check_output_echo(i, out, rec["snap"][0], rec["snap"][1], tags):
                return
            for hid, o in self.outputs.items():
                if o["out"] is out:
                    self.violation("output-not-independent", i, [hid], "same object returned twice")
                    return
            self.outputs[op["id"]] = {"out": out, "digest": self.out_digest(out), "scribbled": False,
                                      "runner": op["runner"], "tags": tags}
            self.log(i, kind, op["runner"], self.outputs[op["id"]]["digest"])
            return
        if kind == "touch":
            rec = self.runners.get(op["runner"])
            if rec is None or not rec["ok"]:
                self.skipped += 1
                self.log(i, kind, "skipped")
                return
            r = rec["runner"]
            self.probes["touch_" + op["how"]] += 1
            try:
                if op["how"] == "drop_cache":
                    r.drop_cache()
                else:
                    names = sorted(r.observables)
                    if not names:
                        self.skipped += 1
                        return
                    sf = r.observables[names[op["which"] % len(names)]]
                    if op["how"] == "sf_get_result":
                        sf.get_result()
                    else:
                        els = getattr(sf, "elements", [])
                        if els:
                            els[op["which"] % len(els)].get_result()
            except SimInterrupt:
                self.interrupted += 1
                self.probes["failure_path_taken"] += 1
                self.log(i, kind, op["how"], "interrupted")
                return
            except Exception as e:  # noqa: BLE001
                self.rejected += 1
                self.probes["failure_path_taken"] += 1
                self.log(i, kind, op["how"], "raise", type(e).__name__)
                return
            self.log(i, kind, op["how"], "ok")
            return
        if kind == "run_yadism":
            t, o = self.card_objs[op["theory"]], self.card_objs[op["obs"]]
            snap = (copy.deepcopy(t), copy.deepcopy(o))
            n0 = len(self.sched.fired)
            try:
                out = yadism.run_yadism(t, o)
            except SimInterrupt:
                self.interrupted += 1
                self.probes["failure_path_taken"] += 1
                self.log(i, kind, "interrupted")
                return
            except Exception as e:  # noqa: BLE001
                self.rejected += 1
                self.probes["failure_path_taken"] += 1
                self.log(i, kind, "raise", type(e).__name__)
                return
            self.returned += 1
            if not self.check_output_echo(i, out, snap[0], snap[1], []):
                return
            self.outputs[op["id"]] = {"out": out, "digest": self.out_digest(out), "scribbled": False, "runner": None}
            self.log(i, kind, self.outputs[op["id"]]["digest"])
            return
        raise ValueError(f"unknown op {kind}")

    def report(self):
        h = hashlib.sha256()
        for ev in self.events:
            h.update(repr(ev).encode() + b"\n")
        h.update(repr(self.sched.fired).encode())
        h.update(repr([(v["oracle"], v["at_op"]) for v in self.violations]).encode())
        fired = {}
        for f in self.sched.fired:
            fired[f[3]] = fired.get(f[3], 0) + 1
        nontrivial = bool(self.sched.fired) or any(
            self.probes.get(k, 0) for k in ("card_object_reused", "caller_edit", "scribble", "failure_path_taken"))
        return {
            "digest": h.hexdigest(), "violations": self.violations, "fired": fired,
            "unfired": len(self.sched.unfired), "steps": self.sched.steps,
            "site_totals": dict(self.sched.site_totals), "probes": dict(self.probes),
            "states": sorted(self.states), "transitions": len(self.transitions),
            "transition_keys": sorted(hashlib.sha256(repr(t).encode()).hexdigest()[:12] for t in self.transitions),
            "sim_seconds": self.clock.covered(), "requests": self.returned + self.rejected + self.interrupted,
            "returned": self.returned, "rejected": self.rejected, "interrupted": self.interrupted,
            "skipped": self.skipped, "refs": 0, "nontrivial": nontrivial, "ops": len(self.trace["ops"]),
            "cells": sorted(map(list, self.cells), key=repr),
        }


def _first_diff(a, b, path="$"):
    if type(a) is not type(b) and not (isinstance(a, (int, float)) and isinstance(b, (int, float))):
        return f"{path}: {a!r} -> {b!r}"
    if isinstance(a, dict):
        for k in a:
            if k not in b:
                return f"{path}.{k}: missing in echo"
        for k in b:
            if k not in a:
                return f"{path}.{k}: extra in echo ({b[k]!r})"
        for k in a:
            d = _first_diff(a[k], b[k], f"{path}.{k}")
            if d:
                return d
        return None
    if isinstance(a, list):
        if len(a) != len(b):
            return f"{path}: length {len(a)} -> {len(b)}"
        for i, (x, y) in enumerate(zip(a, b)):
            d = _first_diff(x, y, f"{path}[{i}]")
            if d:
                return d
        return None
    if not canon._peq(a, b):
        return f"{path}: {a!r} -> {b!r}"
    return None


def _scribble_output(out, what):
    """The caller overwrites parts of an output it was handed back."""
    if what in ("theory", "all") and isinstance(out.theory, dict):
        out.theory["PTO"] = 99
        out.theory["scribbled"] = True
        for k in ("mc", "kcThr"):
            out.theory.pop(k, None)
    if what in ("observables", "all") and isinstance(out.observables, dict):
        out.observables["prDIS"] = "scribbled"
        obs = out.observables.get("observables")
        if isinstance(obs, dict):
            for _name, pts in obs.items():
                if isinstance(pts, list):
                    for p in pts:
                        if isinstance(p, dict):
                            p["x"] = -1.0
                    pts.append({"x": 0.0, "Q2": 0.0})
        t = out.observables.get("TargetDIS")
        if isinstance(t, dict):
            t["Z"] = -7.0
        g = out.observables.get("interpolation_xgrid")
        if isinstance(g, list) and g:
            g[0] = 0.5
    if what in ("xgrid", "all"):
        try:
            g = out["xgrid"]["grid"]
            g[0] = 0.77
            out["xgrid"]["log"] = not out["xgrid"]["log"]
        except Exception:  # noqa: BLE001
            pass
    if what in ("pids", "all"):
        try:
            out["pids"][0] = 0
        except Exception:  # noqa: BLE001
            pass
    if what in ("result", "kin", "all"):
        for k in list(out.keys()):
            v = out[k]
            if isinstance(v, list) and v and hasattr(v[0], "orders"):
                for r in v:
                    if what in ("result", "all"):
                        for o in r.orders.values():
                            try:
                                o[0][...] = 5.0
                            except Exception:  # noqa: BLE001
                                pass
                    if what in ("kin", "all"):
                        r.x = -2.0


def execute(trace, collect_states=True):
    return Execution(trace, collect_states).run()


def violation_class(v):
    return (v["oracle"], v.get("op"))


# ------------------------------------------------------------------------------------
# shrinking
# ------------------------------------------------------------------------------------

def normalise(trace):
    t = dict(trace)
    runners, outputs, ops = set(), set(), []
    for op in trace["ops"]:
        k = op["op"]
        if k == "construct":
            runners.add(op["runner"])
        elif k == "run":
            if op["runner"] not in runners:
                continue
            outputs.add(op["id"])
        elif k == "touch":
            if op["runner"] not in runners:
                continue
        elif k == "run_yadism":
            outputs.add(op["id"])
        elif k == "scribble":
            if op["handle"] not in outputs:
                continue
        ops.append(op)
    t["ops"] = ops
    return t


def candidates(trace):
    ops = trace["ops"]
    n = len(ops)
    size = max(1, n // 2)
    while size >= 1:
        for start in range(0, n, size):
            t = copy.deepcopy(trace)
            del t["ops"][start:start + size]
            yield f"drop ops[{start}:{start + size}]", normalise(t)
        if size == 1:
            break
        size //= 2
    for i, op in enumerate(ops):
        for j in range(len(op.get("faults", []))):
            t = copy.deepcopy(trace)
            del t["ops"][i]["faults"][j]
            yield f"drop fault {i}.{j}", t
    # drop unused cards
    used = set()
    for op in ops:
        for k in ("theory", "obs"):
            if k in op:
                used.add(op[k])
        if op["op"] == "caller_edit":
            used.add(op["edit"]["root"])
    for c in list(trace["cards"]):
        if c not in used:
            t = copy.deepcopy(trace)
            del t["cards"][c]
            yield f"drop card {c}", t
    # fewer observables
    for c, card in trace["cards"].items():
        if c.startswith("O") and isinstance(card.get("observables"), dict) and len(card["observables"]) > 1:
            for name in list(card["observables"]):
                t = copy.deepcopy(trace)
                del t["cards"][c]["observables"][name]
                yield f"drop observable {c}.{name}", t
    # shorter shared lists
    for s, node in trace["shared"].items():
        if isinstance(node, list) and len(node) > 1 and s in ("K0", "XK0"):
            for j in range(len(node)):
                t = copy.deepcopy(trace)
                del t["shared"][s][j]
                yield f"drop {s}[{j}]", t
    # un-share references (replace a $ref by a private copy)
    for c, card in trace["cards"].items():
        if not c.startswith("O"):
            continue
        for key in ("interpolation_xgrid", "TargetDIS"):
            v = card.get(key)
            if isinstance(v, dict) and set(v) == {"$ref"}:
                t = copy.deepcopy(trace)
                t["cards"][c][key] = copy.deepcopy(trace["shared"][v["$ref"]])
                yield f"unshare {c}.{key}", t
    # simpler theory
    for c, card in trace["cards"].items():
        if c.startswith("T"):
            for upd in ({"TMC": 0}, {"FNS": "ZM-VFNS"}, {"PTO": 0, "PTODIS": 0}, {"FactScaleVar": False, "RenScaleVar": False}):
                if any(card.get(k) != v for k, v in upd.items()):
                    t = copy.deepcopy(trace)
                    t["cards"][c].update(upd)
                    yield f"simplify {c} {upd}", t
