"""Plan for C20."""

from .plans import _common_evidence, _scale


def plan(tier):
    quick = tier == "quick"

    def params(i, jit):
        return {"fault_config": ["none", "failing"][i % 2], "max_ops": 14 if quick or i % 3 else 22}

    def evidence(agg, det, tier, seed, wall, t_main, n_new, replays, unprocessed):
        return _common_evidence(
            "C20", "exploration", agg, det, tier, seed, wall, t_main, n_new, replays, unprocessed,
            rule="one run = one seeded history over a pool of caller-owned, aliased card objects (shared kinematics "
                 "lists, shared point dicts, shared grid list, shared target dict; every FNS, target spelling, legacy "
                 "spellings; some cards carrying something the runner rejects): ≤14 ops among construct, run, "
                 "run_yadism, upgrade, upgrade_twice, caller_edit, scribble, with interrupts injected during "
                 "construction (get_esf site) and during runs (convolution / console sites). After every op: exact "
                 "fingerprint (values, types, container identities) of every caller-owned object equals the model that "
                 "only caller_edit updates; every output echoes the cards as they were at its runner's construction, "
                 "the grid, the documented pids and the projectile; held outputs never change. non-trivial = a card "
                 "object was re-used by a second construction, or a caller edit / scribble / failure path occurred, or "
                 "a fault fired; distinct = distinct sha256 of (shared, cards, ops, faults).",
            assumptions=[
                "cards contain only what a YAML run card can contain (dict/list/str/int/float/bool/None)",
                "container identities are compared in-process only and never enter the event log",
                "seeded search samples histories; a clean batch is evidence, not proof",
            ],
            extra_cov={"config_cells_visited": len(agg.cells)})

    return {
        "n_runs": _scale(8000 if quick else 200000),
        "jit_modes": [False] if quick else [False, True],
        "params": params,
        "watchdog": 300,
        "det_sample": 16 if quick else max(16, _scale(300)),
        "det_rounds": [(12345, 2)] if quick else [(12345, 1), (999, 16)],
        "wall_cap": 900 if quick else 3 * 3600,
        "evidence": evidence,
    }
