"""Known findings: committed file /verif/known_findings.json, never written at run time.

Each entry: id, property, status ("open" | "fixed"), line (the human-readable record, for
fixed entries of the form ``fixed: property=<id> <commit> <what failed>``), what, and the
name of a classifier below that recognises *that specific* failing history in a minimised
trace.  A fixed entry suppresses nothing; an open entry turns exactly the histories its
classifier recognises into KNOWN-FINDING lines.
"""

import json
import pathlib

import os

# the committed file; YADSIM_KNOWN_FINDINGS exists only so that the open-finding path can be self-tested
PATH = pathlib.Path(os.environ.get("YADSIM_KNOWN_FINDINGS",
                                   str(pathlib.Path(__file__).resolve().parent.parent / "known_findings.json")))


def load():
    if not PATH.exists():
        return []
    return json.loads(PATH.read_text()).get("findings", [])


def has_open(known, prop):
    return any(k["property"] == prop and k.get("status") == "open" for k in known)


# ---- classifiers: (minimised trace) -> bool ---------------------------------------------

def c14_swapped_key_order(trace):
    """Two points of one observable whose value tuples coincide in dict order although the
    points differ (e.g. {x:a,Q2:b} and {Q2:a,x:b})."""
    if trace.get("expect", {}).get("oracle") != "result-differs":
        return False
    for op in trace["ops"]:
        if op["op"] != "new_runner":
            continue
        for _name, pts in op["observables"]:
            for i, p in enumerate(pts):
                for q in pts[i + 1:]:
                    if [v for _, v in p] == [v for _, v in q] and dict(map(tuple, p)) != dict(map(tuple, q)):
                        return True
    return False


def c15_redump_of_loaded(trace):
    """A dump of an object that was itself loaded fails in the YAML representer / the safe
    loader rejects the numpy tags it wrote."""
    e = trace.get("expect", {})
    d = e.get("detail", "")
    return "redump" in (e.get("tags") or []) and ("RepresenterError" in d or "ConstructorError" in d)


def c15_empty_observable(trace):
    """An observable with an empty point list breaks dump_tar / load_yaml with IndexError."""
    e = trace.get("expect", {})
    return "empty-observable" in (e.get("tags") or []) and "IndexError" in e.get("detail", "")


def c20_echo_aliases_caller_card(trace):
    e = trace.get("expect", {})
    return e.get("oracle") == "echo-differs-from-construction-card" and "caller-edit" in (e.get("tags") or [])


CLASSIFIERS = {f.__name__: f for f in (c14_swapped_key_order, c15_redump_of_loaded,
                                       c15_empty_observable, c20_echo_aliases_caller_card)}


def match(known, prop, trace):
    for k in known:
        if k["property"] != prop:
            continue
        f = CLASSIFIERS.get(k.get("classifier"))
        try:
            if f is not None and f(trace):
                return k
        except Exception:  # noqa: BLE001
            continue
    return None
