"""Harness self-tests (DESIGN §2.8).

``./check selftest determinism <C14|C15|C20> [n] [jit]``
    executes run indices 0..n-1 three times — 16 workers/PYTHONHASHSEED=0, 1 worker/PYTHONHASHSEED=4242
    in reverse order, 5 workers/PYTHONHASHSEED=31337 shuffled — each in fresh interpreters, and diffs the
    per-run event-log digests.  Exit 0 iff all agree.

``./check selftest sensitivity``
    applies the registered own mutants to scratch copies of /repo/src (never /repo) and reports which
    are caught by the quick tier (wrapper around tools/run_mutants.py).
"""

import os
import random
import shutil
import subprocess
import sys
import tempfile

from . import batch, plans


def determinism(prop, n, jit):
    plan = plans.get(prop, "quick")
    logdir = tempfile.mkdtemp(prefix="yadsim-selftest-")
    try:
        def tasks(order):
            return [{"cmd": "run", "prop": prop, "seed": int(os.environ.get("VERIF_SEED", "0") or 0), "index": i,
                     "tier": "quick", "params": plan["params"](i, jit), "watchdog": plan["watchdog"], "_jit": jit}
                    for i in order]

        results = []
        orders = [list(range(n)), list(reversed(range(n))), list(range(n))]
        random.Random(5).shuffle(orders[2])
        for (hs, nw), order in zip([(0, 16), (4242, 1), (31337, 5)], orders):
            got = {}

            def on(task, reply, got=got):
                got[task["index"]] = reply["report"]["digest"] if "report" in reply else "ERR:" + reply.get("error", "?")

            batch.run_tasks(tasks(order), nw, jit, hs, logdir, on)
            results.append(got)
            print(f"[selftest] {prop} jit={jit} PYTHONHASHSEED={hs} workers={nw}: {len(got)} runs", flush=True)
        bad = [i for i in range(n) if len({r.get(i) for r in results}) != 1]
        errs = [i for i in range(n) if any(str(r.get(i, "ERR")).startswith("ERR") for r in results)]
        print(f"[selftest] determinism {prop}: {n} runs x 3 executions, mismatching={len(bad)} errors={len(errs)}")
        for i in bad[:10]:
            print("   index", i, [r.get(i, "?")[:12] for r in results])
        return 0 if not bad and not errs else 2
    finally:
        shutil.rmtree(logdir, ignore_errors=True)


def main(argv):
    if not argv:
        print(__doc__)
        return 2
    if argv[0] == "determinism":
        prop = argv[1] if len(argv) > 1 else "C14"
        n = int(argv[2]) if len(argv) > 2 else 200
        jit = len(argv) > 3 and argv[3] in ("1", "jit", "true")
        return determinism(prop, n, jit)
    if argv[0] == "sensitivity":
        tool = os.path.join(os.path.dirname(os.path.dirname(os.path.abspath(__file__))), "tools", "run_mutants.py")
        return subprocess.call([sys.executable, tool] + argv[1:])
    print(__doc__)
    return 2
