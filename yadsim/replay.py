"""Re-execute a replay file (explicit op-and-fault trace) in this fresh interpreter.

exit 1 + ``VIOLATION property=<id> replay=<path>`` if the recorded violation class
reproduces, exit 0 if the trace no longer violates, exit 2 on harness trouble.
"""

import json
import os
import sys


def main(argv):
    quiet = "--quiet" in argv
    argv = [a for a in argv if not a.startswith("--")]
    if not argv:
        print("usage: replay <path>")
        return 2
    path = argv[0]
    trace = json.loads(open(path).read())
    if "YADSIM_JIT" not in os.environ:
        os.environ["YADSIM_JIT"] = "1" if trace.get("jit") else "0"
    from . import env

    env.import_yadism()
    from . import registry

    if "session" in trace:
        # a session: several runs executed one after the other in this one process (a violation that needs
        # state left behind by earlier runners of the same process); only the last run is judged
        session = trace["session"]
        for t in session[:-1]:
            registry.get(t["property"]).execute(t, collect_states=False)
        last = session[-1]
        last.setdefault("expect", trace.get("expect"))
        trace = dict(last, property=last["property"])
    sim = registry.get(trace["property"])
    rep = sim.execute(trace, collect_states=False)
    exp = trace.get("expect") or {}
    if not rep["violations"]:
        print(f"[yadsim] replay {path}: no violation (trace no longer fails)")
        return 0
    v = rep["violations"][0]
    same = (not exp) or (v["oracle"] == exp.get("oracle") and v.get("op") == exp.get("op"))
    if not quiet:
        print(f"[yadsim] replay {path}: oracle={v['oracle']} at_op={v['at_op']} what={json.dumps(v['what'])}")
        print(f"[yadsim]   detail: {v['detail']}")
        if not same:
            print(f"[yadsim]   note: differs from the recorded class {exp.get('oracle')}/{exp.get('op')}")
    print(f"VIOLATION property={trace['property']} replay={path}")
    return 1


if __name__ == "__main__":
    sys.exit(main(sys.argv[1:]))
