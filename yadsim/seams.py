"""Seams: every point where the scheduler is consulted.  Installed by attribute patching
from /verif; nothing in /repo is modified (MANIFEST.hooks.source_commits is empty).

The scheduler object (``Sched``) is the single authority: it is consulted with a *site*
name, counts consultations per op, and answers with a fault decision or ``None``.  In a
run, decisions come from the explicit trace (which was itself generated from the seed),
so executing a trace is a pure function of (trace, yadism source, JIT mode).
"""

import collections
import errno
import io


class SimInterrupt(BaseException):
    """Models ^C / MemoryError unwinding out of a library call at an arbitrary point."""


class SimCrash(BaseException):
    """Models process death at a raw I/O call (C15)."""


class Sched:
    """Per-run scheduler: fault decisions addressed as (op index, site, k-th consultation)."""

    def __init__(self):
        self.op_index = -1
        self.pending = {}
        self.counts = collections.Counter()
        self.fired = []  # (op_index, site, call, do)
        self.unfired = []
        self.site_totals = collections.Counter()
        self.steps = 0
        self.active = False
        self.quiet = 0  # >0 ⇒ consultations are neither counted nor answered (reference mode)

    def begin_op(self, op_index, faults):
        self.op_index = op_index
        self.pending = {}
        for f in faults or []:
            self.pending[(f["site"], int(f["call"]))] = f
        self.counts = collections.Counter()
        self.active = True
        self.steps += 1

    def end_op(self):
        for key, f in sorted(self.pending.items()):
            self.unfired.append((self.op_index, f["site"], int(f["call"]), f["do"]))
        self.pending = {}
        self.active = False

    def consult(self, site):
        if not self.active or self.quiet:
            return None
        k = self.counts[site]
        self.counts[site] = k + 1
        self.site_totals[site] += 1
        self.steps += 1
        f = self.pending.pop((site, k), None)
        if f is not None:
            self.fired.append((self.op_index, site, k, f["do"]))
        return f


class SimClock:
    """Stub clock: advances by a fixed tick per reading; the scheduler may jump it."""

    def __init__(self, sched):
        self.sched = sched
        self.now = 1_700_000_000.0
        self.frozen = False
        self.start = self.now
        self.max_seen = self.now

    def _read(self):
        d = self.sched.consult("clock")
        if d is not None:
            do = d["do"]
            if do == "clock_jump":
                self.now += float(d.get("arg", 86400.0))
            elif do == "clock_back":
                self.now -= float(d.get("arg", 3600.0))
            elif do == "clock_freeze":
                self.frozen = True
        if not self.frozen:
            self.now += 0.125
        self.max_seen = max(self.max_seen, self.now)
        return self.now

    def time(self):
        return self._read()

    def perf_counter(self):
        return self._read()

    def monotonic(self):
        return self._read()

    def covered(self):
        return self.max_seen - self.start


class FaultyStream(io.StringIO):
    """Console sink whose write may raise EPIPE at a scheduler-chosen call."""

    def __init__(self, sched):
        super().__init__()
        self.sched = sched

    def write(self, s):
        d = self.sched.consult("console")
        if d is not None and d["do"] == "interrupt_console":
            raise OSError(errno.EPIPE, "Broken pipe (simulated)")
        # keep memory bounded: the content is never inspected
        return len(s)


class LineTracer:
    """Interrupt at an arbitrary *source line* of the stateful functions of yadism (the closest
    model of ^C): ``sys.settrace`` line events inside a fixed set of code objects are one more
    seam site (``line``).  Tracing is only switched on for ops that carry a ``line`` decision, so
    other ops run at full speed; frames of other functions are not traced at all."""

    def __init__(self, sched):
        self.sched = sched
        self.codes = set()
        self.where = None

    def add_targets(self, *funcs):
        for f in funcs:
            f = getattr(f, "__func__", f)
            code = getattr(f, "__code__", None)
            if code is not None:
                self.codes.add(code)

    def _local(self, frame, event, arg):
        if event == "line":
            d = self.sched.consult("line")
            if d is not None and d["do"] == "interrupt_line":
                self.where = (frame.f_code.co_name, frame.f_lineno)
                raise SimInterrupt(f"interrupt@line {frame.f_code.co_name}:{frame.f_lineno}")
        return self._local

    def _global(self, frame, event, arg):
        if event == "call" and frame.f_code in self.codes:
            return self._local
        return None

    def start(self):
        import sys

        sys.settrace(self._global)

    def stop(self):
        import sys

        sys.settrace(None)


class Seams:
    """Install / remove the C14/C20 seams around the real yadism code."""

    def __init__(self, sched, clock=None):
        self.sched = sched
        self.clock = clock or SimClock(sched)
        self._saved = []
        self.probes = collections.Counter()

    # -- helpers
    def _patch(self, obj, name, new):
        self._saved.append((obj, name, getattr(obj, name)))
        setattr(obj, name, new)

    def install(self):
        import logging

        import rich.progress
        import yadism.esf.conv as conv
        import yadism.esf.scale_variations as svmod
        import yadism.runner as runner_mod
        import yadism.sf as sfmod

        sched = self.sched
        seams = self
        logging.raiseExceptions = False

        # --- get_esf: cache eviction site -------------------------------------------
        orig_get_esf = sfmod.StructureFunction.get_esf

        def get_esf(self, obs_name, kinematics, *args, **kwargs):
            d = sched.consult("get_esf")
            if d is not None:
                seams.apply_eviction(d["do"], sf=self)
            # probe only (white-box, degrades to nothing): was this a cache hit?
            try:
                n0 = len(self.cache)
            except Exception:  # noqa: BLE001
                n0 = None
            res = orig_get_esf(self, obs_name, kinematics, *args, **kwargs)
            if not sched.quiet:
                try:
                    if n0 is None:
                        pass
                    elif kwargs.get("force_local"):
                        seams.probes["sf_force_local"] += 1
                    elif obs_name == self.obs_name:
                        if len(self.cache) == n0:
                            seams.probes["sf_cache_hit"] += 1
                        else:
                            seams.probes["sf_cache_miss"] += 1
                    else:
                        seams.probes["sf_delegated"] += 1
                except Exception:  # noqa: BLE001
                    pass
            return res

        self._patch(sfmod.StructureFunction, "get_esf", get_esf)

        # --- convolution: interrupt site -----------------------------------------
        orig_conv = conv.convolution

        def convolution(rsl, x, pdf_func):
            d = sched.consult("conv")
            if d is not None and d["do"] == "interrupt_conv":
                raise SimInterrupt("interrupt@conv")
            return orig_conv(rsl, x, pdf_func)

        self._patch(conv, "convolution", convolution)
        # scale_variations imported convolve_operator by name; it calls conv.convolution
        # through the conv module's globals, so the patch above covers it.  We additionally
        # interpose on the memo fill to be able to evict right around it.
        orig_cop = svmod.convolve_operator

        def convolve_operator(fnc, interpolator):
            d = sched.consult("sv_fill")
            if d is not None and d["do"] == "interrupt_sv":
                raise SimInterrupt("interrupt@sv_fill")
            return orig_cop(fnc, interpolator)

        self._patch(svmod, "convolve_operator", convolve_operator)

        # --- process-global N3LO grid memo: eviction site + reach probe ------------------
        try:
            import yadism.coefficient_functions.heavy.f2_nc as hf2
            import yadism.coefficient_functions.heavy.fl_nc as hfl
            import yadism.coefficient_functions.heavy.n3lo as n3lo

            def make_interp(orig):
                def interpolator(coeff, nf, variation):
                    d = sched.consult("n3lo_memo")
                    if d is not None:
                        seams.apply_eviction(d["do"])
                    if not sched.quiet:
                        try:
                            name = f"{coeff}_nf{int(nf)}_var{int(variation)}.npy"
                            if name in n3lo.interpolators:
                                seams.probes["n3lo_memo_hit"] += 1
                                if seams.n3lo_filled_by.get(name) not in (None, sched.op_index):
                                    seams.probes["n3lo_memo_hit_filled_by_earlier_op"] += 1
                            else:
                                seams.probes["n3lo_memo_miss"] += 1
                                seams.n3lo_filled_by[name] = sched.op_index
                                if n3lo.interpolators:
                                    seams.probes["n3lo_memo_miss_while_other_keys_present"] += 1
                        except Exception:  # noqa: BLE001
                            pass
                    return orig(coeff, nf, variation)
                return interpolator

            self.n3lo_filled_by = {}
            for mod in (hf2, hfl):
                if hasattr(mod, "interpolator"):
                    self._patch(mod, "interpolator", make_interp(mod.interpolator))
        except Exception:  # noqa: BLE001 - probe/seam degrades to nothing if the code is refactored
            self.probes["seam_degraded_n3lo"] += 1

        # --- clocks ---------------------------------------------------------------
        self._patch(runner_mod, "time", self.clock)
        self._patch(svmod, "time", self.clock)

        # --- rich refresh thread → scheduler-driven synchronous refresh -------------
        OrigProgress = rich.progress.Progress
        clock = self.clock

        class SimProgress(OrigProgress):
            def __init__(self, *a, **kw):
                kw["auto_refresh"] = False
                kw["get_time"] = clock.monotonic
                super().__init__(*a, **kw)

            def update(self, *a, **kw):
                super().update(*a, **kw)
                d = sched.consult("progress")
                if d is not None and d["do"] == "refresh_now":
                    self.refresh()

        self._patch(rich.progress, "Progress", SimProgress)

        # --- line-level interrupt targets: the functions that own in-flight state ---------
        self.lines = LineTracer(sched)
        try:
            import yadism.esf.esf as esfmod
            import yadism.esf.exs as exsmod
            import yadism.esf.tmc as tmcmod
            import yadism.input.compatibility as compat
            import yadism.xs as xsmod

            self.lines.add_targets(
                esfmod.EvaluatedStructureFunction.compute_local, esfmod.EvaluatedStructureFunction.get_result,
                esfmod.EvaluatedStructureFunction.__init__,
                runner_mod.Runner.get_result, runner_mod.Runner.__init__, runner_mod.Runner.get_sf,
                runner_mod.Runner.drop_cache, runner_mod.Runner.replace_nans_with_0,
                orig_get_esf, sfmod.StructureFunction.load, sfmod.StructureFunction.get_result,
                sfmod.StructureFunction.drop_cache,
                xsmod.CrossSection.load, xsmod.CrossSection.get_esf, xsmod.CrossSection.get_result,
                exsmod.EvaluatedCrossSection.get_result, exsmod.EvaluatedCrossSection.__init__,
                tmcmod.EvaluatedStructureFunctionTMC.get_result, tmcmod.EvaluatedStructureFunctionTMC._convolve_FX,
                tmcmod.EvaluatedStructureFunctionTMC.__init__,
                svmod.ScaleVariations.compute_raw, svmod.ScaleVariations.fact_matrices,
                svmod.ScaleVariations.apply_common_scale_variations, svmod.ScaleVariations.apply_diff_scale_variations,
                compat.update, compat.update_fns, compat.update_target, compat.update_scale_variations,
            )
            for cls in tmcmod.ESFTMCmap.values():
                for nm in ("_get_result_APFEL", "_get_result_approx", "_get_result_exact", "__init__"):
                    if nm in cls.__dict__:
                        self.lines.add_targets(cls.__dict__[nm])
        except Exception:  # noqa: BLE001 - degrades to fewer targets if the code is refactored
            self.probes["seam_degraded_line_targets"] += 1
        return self

    def apply_eviction(self, do, sf=None, runner=None):
        """Perform an eviction decision.  All operations are public API or pure-cache clears."""
        import yadism.coefficient_functions.heavy.n3lo as n3lo

        if runner is None and sf is not None:
            runner = sf.runner
        if do == "evict_sf" and sf is not None:
            sf.drop_cache()
        elif do == "evict_runner" and runner is not None:
            runner.drop_cache()
        elif do == "evict_sv_memo" and runner is not None:
            try:
                runner.configs.managers["sv_manager"].operators.clear()
            except (AttributeError, KeyError, TypeError):
                self.probes["seam_degraded_sv_memo"] += 1
        elif do in ("evict_global_memo", "evict_n3lo_memo"):
            try:
                n3lo.interpolators.clear()
            except AttributeError:
                self.probes["seam_degraded_n3lo_memo"] += 1
            try:
                import LeProHQ.utils as lu

                if hasattr(lu, "interpolator_2d") and hasattr(lu.interpolator_2d, "clear"):
                    lu.interpolator_2d.clear()
            except Exception:  # noqa: BLE001
                self.probes["seam_degraded_leprohq_memo"] += 1

    def remove(self):
        while self._saved:
            obj, name, old = self._saved.pop()
            setattr(obj, name, old)
