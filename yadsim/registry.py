"""Property id → simulator module."""

import hashlib
import importlib
import json

MODULES = {"C14": "yadsim.sim_c14", "C15": "yadsim.sim_c15", "C20": "yadsim.sim_c20"}


def get(prop):
    return importlib.import_module(MODULES[prop])


def trace_digest(trace):
    t = {k: trace[k] for k in ("settings", "ops") if k in trace}
    for k in ("cards", "outputs"):
        if k in trace:
            t[k] = trace[k]
    return hashlib.sha256(json.dumps(t, sort_keys=True).encode()).hexdigest()[:24]
