"""Process environment pinning.  Import this module before numba / yadism.

* yadism is imported from ``$YADSIM_SRC`` (default ``/repo/src``) — asserted.
* JIT mode is chosen by ``YADSIM_JIT`` (``0`` → ``NUMBA_DISABLE_JIT=1``).
* The numba on-disk cache is keyed by the *content* of the whole source tree.
* BLAS/OpenMP thread pools are pinned to one thread (no hidden scheduler).
"""

import hashlib
import os
import pathlib
import shutil
import sys

SRC = pathlib.Path(os.environ.get("YADSIM_SRC", "/repo/src")).resolve()
VERIF = pathlib.Path(__file__).resolve().parent.parent
CACHE_ROOT = pathlib.Path(
    os.environ.get("YADSIM_CACHE", str(pathlib.Path.home() / ".cache" / "yadsim"))
)

_configured = False
_source_hash = None


def source_hash(src=None):
    """sha256 over every .py / .npy file of the yadism package (sorted by path)."""
    global _source_hash
    if src is None and _source_hash is not None:
        return _source_hash
    base = (pathlib.Path(src) if src else SRC) / "yadism"
    h = hashlib.sha256()
    for p in sorted(base.rglob("*")):
        if not p.is_file() or "__pycache__" in p.parts:
            continue
        if p.suffix not in (".py", ".npy", ".txt", ".yaml"):
            continue
        h.update(str(p.relative_to(base)).encode())
        h.update(b"\x00")
        h.update(p.read_bytes())
        h.update(b"\x01")
    d = h.hexdigest()
    if src is None:
        _source_hash = d
    return d


def jit_enabled():
    return os.environ.get("YADSIM_JIT", "0") == "1"


def configure():
    """Pin the environment; idempotent.  Must run before ``import numba``."""
    global _configured
    if _configured:
        return
    if "numba" in sys.modules or "yadism" in sys.modules:
        raise RuntimeError("yadsim.env.configure() must run before numba/yadism import")
    for v in (
        "OMP_NUM_THREADS",
        "MKL_NUM_THREADS",
        "OPENBLAS_NUM_THREADS",
        "NUMEXPR_NUM_THREADS",
        "NUMBA_NUM_THREADS",
        "VECLIB_MAXIMUM_THREADS",
    ):
        os.environ[v] = "1"
    os.environ["YADISM_SILENT_MODE"] = "1"
    os.environ.pop("YADISM_LOG_FILE", None)
    os.environ.pop("DEBUG", None)
    if jit_enabled():
        os.environ.pop("NUMBA_DISABLE_JIT", None)
        cdir = CACHE_ROOT / ("nb-" + source_hash()[:24])
        cdir.mkdir(parents=True, exist_ok=True)
        os.environ["NUMBA_CACHE_DIR"] = str(cdir)
    else:
        os.environ["NUMBA_DISABLE_JIT"] = "1"
    # make sure yadism comes from the tree under test
    sys.path[:] = [p for p in sys.path if pathlib.Path(p or ".").resolve() != SRC]
    sys.path.insert(0, str(SRC))
    sys.dont_write_bytecode = True
    _configured = True


def import_yadism():
    configure()
    import yadism  # noqa: PLC0415

    got = pathlib.Path(yadism.__file__).resolve()
    if SRC not in got.parents:
        raise RuntimeError(f"yadism imported from {got}, expected under {SRC}")
    return yadism


def prune_numba_caches(keep=3):
    """Remove stale content-keyed numba caches (oldest first), keep the newest few."""
    if not CACHE_ROOT.is_dir():
        return
    dirs = sorted(
        (d for d in CACHE_ROOT.iterdir() if d.is_dir() and d.name.startswith("nb-")),
        key=lambda d: d.stat().st_mtime,
        reverse=True,
    )
    cur = "nb-" + source_hash()[:24]
    for d in dirs[keep:]:
        if d.name != cur:
            shutil.rmtree(d, ignore_errors=True)
