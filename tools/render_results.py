#!/venv/bin/python
"""Render seeded/results.json and mutants/results.json as the markdown tables of DESIGN §10."""
import json
import pathlib
import sys

V = pathlib.Path(__file__).resolve().parent.parent
sys.path.insert(0, str(V / "mutants"))
import specs  # noqa: E402

sr = json.loads((V / "seeded" / "results.json").read_text())
print("| seeded change | property | what it needs to manifest | result of the quick tier (scale 0.5) |")
print("|---|---|---|---|")
for d in sorted((V / "seeded").iterdir()):
    if not d.is_dir():
        continue
    m = json.loads((d / "meta.json").read_text())
    r = sr.get(d.name, {})
    res = f"**{r.get('status', '?')}**: {r.get('violating_runs')} of {r.get('runs')} runs; {', '.join(r.get('oracles', []))}"
    print(f"| `{d.name}` | {m['property']} | {m['needs']} | {res} |")
print()
mr = json.loads((V / "mutants" / "results.json").read_text())
print("| own mutant | expected | result | violating/runs | oracles |")
print("|---|---|---|---|---|")
for mu in specs.M:
    r = mr.get(mu["id"], {})
    print(f"| `{mu['id']}` | {mu.get('expect', 'caught')}{' (thorough)' if mu.get('tier') == 'thorough' else ''} | "
          f"{r.get('status', '?')} | {r.get('violating_runs')}/{r.get('runs')} | {', '.join(r.get('oracles', []))} |")
