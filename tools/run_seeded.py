#!/venv/bin/python
"""Run the registered checks against every kept seeded change (seeded/<id>/patch.diff), each applied
to a scratch git worktree of /repo (never to /repo itself).  Records the outcome in seeded/results.json.
usage: run_seeded.py [--only id,...] [--scale 0.5] [--tier quick]"""
import argparse
import json
import os
import pathlib
import re
import shutil
import subprocess
import tempfile
import time

VERIF = pathlib.Path(__file__).resolve().parent.parent


def main():
    ap = argparse.ArgumentParser()
    ap.add_argument("--only", default="")
    ap.add_argument("--scale", default="0.5")
    ap.add_argument("--tier", default="quick")
    a = ap.parse_args()
    only = set(x for x in a.only.split(",") if x)
    res_path = VERIF / "seeded" / "results.json"
    results = json.loads(res_path.read_text()) if res_path.exists() else {}
    for d in sorted((VERIF / "seeded").iterdir()):
        if not d.is_dir() or (only and d.name not in only):
            continue
        meta = json.loads((d / "meta.json").read_text())
        scratch = pathlib.Path(tempfile.mkdtemp(prefix="yadsim-seeded-"))
        wt = scratch / "wt"
        try:
            subprocess.run(["git", "-C", "/repo", "worktree", "add", "-q", "--detach", str(wt), "HEAD"], check=True)
            ap_ = subprocess.run(["git", "-C", str(wt), "apply", str(d / "patch.diff")], capture_output=True, text=True)
            if ap_.returncode != 0:
                print(f"{d.name}: patch does not apply: {ap_.stderr[-200:]}", flush=True)
                results[d.name] = {"status": "patch-does-not-apply"}
                continue
            env = dict(os.environ)
            env.update(YADSIM_SRC=str(wt / "src"), YADSIM_SCALE=a.scale,
                       YADSIM_EVIDENCE_DIR=str(scratch / "evidence"), YADSIM_REPLAY_DIR=str(scratch / "replays"))
            t0 = time.time()
            p = subprocess.run([str(VERIF / "check"), meta["property"], a.tier], env=env, capture_output=True, text=True)
            dt = time.time() - t0
            out = p.stdout
            mvr = re.search(r"violating_runs=(\d+)", out)
            runs = re.search(r"runs=(\d+) inconclusive", out)
            oracles = sorted(set(re.findall(r"oracle=(\S+)", out)))
            status = "caught" if p.returncode == 1 and "VIOLATION" in out else ("harness-error" if p.returncode == 2 else "missed")
            results[d.name] = {"status": status, "exit": p.returncode, "violating_runs": int(mvr.group(1)) if mvr else None,
                               "runs": int(runs.group(1)) if runs else None, "oracles": oracles, "scale": a.scale,
                               "tier": a.tier, "wall_s": round(dt, 1), "property": meta["property"]}
            print(f"{d.name}: {status} exit={p.returncode} violating={results[d.name]['violating_runs']}/{results[d.name]['runs']} "
                  f"oracles={oracles} {dt:.0f}s", flush=True)
        finally:
            subprocess.run(["git", "-C", "/repo", "worktree", "remove", "--force", str(wt)], capture_output=True)
            shutil.rmtree(scratch, ignore_errors=True)
            res_path.write_text(json.dumps(results, indent=1, sort_keys=True))


if __name__ == "__main__":
    main()
