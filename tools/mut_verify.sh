#!/bin/bash
# usage: mut_verify.sh <worktree> <demo.py>
# Confirms for a candidate breaking change living (uncommitted) in <worktree>:
#   - the 84 baseline tests still pass with the change
#   - the demo exits non-zero with the change and zero without it
wt="$1"; demo="$2"
cd "$wt" || exit 2
export PYTHONPATH="$wt/src" NUMBA_DISABLE_JIT=1 YADISM_SILENT_MODE=1
git diff -- src > /tmp/mutv.$$.diff
[ -s /tmp/mutv.$$.diff ] || { echo "no source change in $wt"; exit 2; }
echo "== tests with change"
timeout 1800 /venv/bin/python -m pytest -q -p no:cacheprovider --timeout=900 --continue-on-collection-errors --junitxml=/tmp/mutv.$$.xml tests > /tmp/mutv.$$.log 2>&1
tail -3 /tmp/mutv.$$.log
/venv/bin/python - "$$" <<'PY'
import json,sys,xml.etree.ElementTree as ET
pid=sys.argv[1]
base=set(json.load(open('/root/.vp/BASELINE.json'))['stable_pass'])
passed=set()
for tc in ET.parse(f'/tmp/mutv.{pid}.xml').getroot().iter('testcase'):
    if not any(ch.tag in ('failure','error','skipped') for ch in tc):
        passed.add(tc.get('classname')+'::'+tc.get('name'))
missing=sorted(base-passed)
print("baseline tests passing:", len(base&passed), "of", len(base), "missing:", missing)
PY
echo "== demo with change"; timeout 900 /venv/bin/python "$demo" > /tmp/mutv.$$.d1 2>&1; echo "exit=$?"; tail -3 /tmp/mutv.$$.d1
git apply -R /tmp/mutv.$$.diff
echo "== demo without change"; timeout 900 /venv/bin/python "$demo" > /tmp/mutv.$$.d2 2>&1; echo "exit=$?"; tail -2 /tmp/mutv.$$.d2
git apply /tmp/mutv.$$.diff
rm -rf .hypothesis/examples .hypothesis/constants
rm -f /tmp/mutv.$$.*
