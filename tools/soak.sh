#!/bin/bash
# usage: tools/soak.sh <first seed> <last seed> [tier] [props...]
# Runs the registered checks for a range of VERIF_SEED values against /repo and reports every run
# that does not exit 0.  Evidence of soak runs goes to a scratch directory.
cd "$(dirname "$0")/.." || exit 2
a=$1; b=$2; tier=${3:-quick}; shift 3 2>/dev/null
props=${*:-C14 C15 C20}
export YADSIM_EVIDENCE_DIR=$(mktemp -d /tmp/yadsim-soak-ev-XXXX)
bad=0
for s in $(seq "$a" "$b"); do
  for p in $props; do
    out=$(VERIF_SEED=$s ./check "$p" "$tier" 2>&1); rc=$?
    echo "seed=$s $p $tier exit=$rc $(echo "$out" | grep -E "^\[yadsim\] $p" | tail -1)"
    if [ $rc -ne 0 ]; then bad=$((bad+1)); echo "$out" | grep -E "VIOLATION|HARNESS|oracle=" | head -20; fi
  done
done
rm -rf "$YADSIM_EVIDENCE_DIR"
echo "soak finished: $bad non-zero exits"
exit $((bad>0))
