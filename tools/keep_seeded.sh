#!/bin/bash
# usage: keep_seeded.sh <worktree> <id>   -- copy an agent's confirmed change into seeded/<id>/
wt="$1"; id="$2"; d=/verif/seeded/$id
mkdir -p "$d"
git -C "$wt" diff -- src > "$d/patch.diff"
cp "$wt/demo.py" "$d/demo.py"
[ -f "$wt/NOTES.agent.md" ] && cp "$wt/NOTES.agent.md" "$d/NOTES.agent.md"
# the demos refer to their scratch worktree; make that a comment for later readers
sed -i "s#$wt#<worktree>#g" "$d/demo.py" "$d/NOTES.agent.md" 2>/dev/null
wc -l "$d/patch.diff"
