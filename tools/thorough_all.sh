#!/bin/bash
./check C14 thorough; echo "C14 exit=$?"
./check C15 thorough; echo "C15 exit=$?"
