#!/venv/bin/python
"""Apply each own mutant (mutants/specs.py) to a scratch copy of /repo/src and run the quick
tier of its check against it (YADSIM_SRC).  Nothing in /repo is touched.  Results go to
mutants/results.json.   usage: run_mutants.py [--only id,...] [--prop C14] [--scale 0.5] [--tests]"""
import argparse
import json
import os
import pathlib
import re
import shutil
import subprocess
import sys
import tempfile
import time

VERIF = pathlib.Path(__file__).resolve().parent.parent
sys.path.insert(0, str(VERIF / "mutants"))
import specs  # noqa: E402


def main():
    ap = argparse.ArgumentParser()
    ap.add_argument("--only", default="")
    ap.add_argument("--prop", default="")
    ap.add_argument("--scale", default="1")
    ap.add_argument("--tier", default="quick")
    ap.add_argument("--tests", action="store_true")
    a = ap.parse_args()
    only = set(x for x in a.only.split(",") if x)
    res_path = VERIF / "mutants" / "results.json"
    results = json.loads(res_path.read_text()) if res_path.exists() else {}
    for mu in specs.M:
        if only and mu["id"] not in only:
            continue
        if a.prop and mu["property"] != a.prop:
            continue
        scratch = pathlib.Path(tempfile.mkdtemp(prefix="yadsim-mut-"))
        try:
            shutil.copytree("/repo/src", scratch / "src", ignore=shutil.ignore_patterns("__pycache__"))
            f = scratch / "src" / mu["file"]
            txt = f.read_text()
            searches = mu["search"] if isinstance(mu["search"], list) else [mu["search"]]
            repls = mu["replace"] if isinstance(mu["replace"], list) else [mu["replace"]]
            ok = True
            for s, r in zip(searches, repls):
                if txt.count(s) != 1:
                    print(f"{mu['id']}: search string occurs {txt.count(s)} times - SKIPPED", flush=True)
                    ok = False
                    break
                txt = txt.replace(s, r)
            if not ok:
                results[mu["id"]] = {"status": "spec-error"}
                continue
            f.write_text(txt)
            env = dict(os.environ)
            env.update(YADSIM_SRC=str(scratch / "src"), YADSIM_SCALE=a.scale,
                       YADSIM_EVIDENCE_DIR=str(scratch / "evidence"), YADSIM_REPLAY_DIR=str(scratch / "replays"))
            # compiles?
            c = subprocess.run(["/venv/bin/python", "-m", "py_compile", str(f)], capture_output=True, text=True)
            if c.returncode != 0:
                print(f"{mu['id']}: does not compile: {c.stderr[-300:]}", flush=True)
                results[mu["id"]] = {"status": "does-not-compile"}
                continue
            tests = None
            if a.tests:
                tenv = dict(os.environ, PYTHONPATH=str(scratch / "src"))
                t = subprocess.run(["/venv/bin/python", "-m", "pytest", "-q", "-p", "no:cacheprovider", "--timeout=900",
                                    "--continue-on-collection-errors", "-p", "no:cov", "tests"], cwd="/repo", env=tenv,
                                   capture_output=True, text=True)
                tests = t.stdout.strip().splitlines()[-1] if t.stdout.strip() else "?"
                shutil.rmtree("/repo/.hypothesis/examples", ignore_errors=True)
                shutil.rmtree("/repo/.hypothesis/constants", ignore_errors=True)
            t0 = time.time()
            p = subprocess.run([str(VERIF / "check"), mu["property"], a.tier], env=env, capture_output=True, text=True)
            dt = time.time() - t0
            out = p.stdout
            viol = [ln for ln in out.splitlines() if ln.startswith("VIOLATION")]
            oracles = sorted(set(re.findall(r"oracle=(\S+)", out)))
            summ = [ln for ln in out.splitlines() if ln.startswith("[yadsim] " + mu["property"])]
            mvr = re.search(r"violating_runs=(\d+)", out)
            runs = re.search(r"runs=(\d+) inconclusive", out)
            results[mu["id"]] = {"status": "caught" if p.returncode == 1 and viol else ("harness-error" if p.returncode == 2 else "missed"),
                                 "exit": p.returncode, "violating_runs": int(mvr.group(1)) if mvr else None,
                                 "runs": int(runs.group(1)) if runs else None, "oracles": oracles,
                                 "wall_s": round(dt, 1), "scale": a.scale, "tier": a.tier, "needs": mu["needs"], "tests": tests,
                                 "expect": mu.get("expect", "caught"), "registered_tier": mu.get("tier", "quick")}
            print(f"{mu['id']}: {results[mu['id']]['status']} exit={p.returncode} "
                  f"violating={results[mu['id']]['violating_runs']}/{results[mu['id']]['runs']} oracles={oracles} {dt:.0f}s"
                  + (f" tests: {tests}" if tests else ""), flush=True)
            if p.returncode == 2:
                print("   " + "\n   ".join(ln for ln in out.splitlines() if ln.startswith("HARNESS")), flush=True)
        finally:
            shutil.rmtree(scratch, ignore_errors=True)
            res_path.write_text(json.dumps(results, indent=1, sort_keys=True))


if __name__ == "__main__":
    main()
