#!/bin/bash
# usage: tools/thorough_seed.sh <seed> [ids...]   — thorough tiers for one VERIF_SEED, evidence to scratch
cd "$(dirname "$0")/.." || exit 2
s=$1; shift
export YADSIM_EVIDENCE_DIR=$(mktemp -d /tmp/yadsim-thor-ev-XXXX)
for p in ${*:-C14 C20 C15}; do
  VERIF_SEED=$s ./check "$p" thorough | grep -v "progress"; echo "seed=$s $p thorough exit=${PIPESTATUS[0]}"
done
rm -rf "$YADSIM_EVIDENCE_DIR"
